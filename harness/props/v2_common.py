"""Shared code of the checks C02 / C03 / C10: the v2-capable hashers (HasherV2, HasherHybrid, FileHasher) against
their extracted Coq models, against the reference oracle and against each other; the four v2-capable creators
(and the CLI route) end to end on generated content trees."""
import os
import random
import shutil
import contextlib
from concurrent.futures import ThreadPoolExecutor

import core
import trees
import scale
import modelrun
from ref import oracle
from props import c01

B_REAL = 16384
LIMIT = 600_000                      # extracted functions are not tail recursive: payload bound per case
HASHERS = ("v2", "hy0", "hy1", "fh00", "fh01", "fh10", "fh11")
HASHER_NAMES = {"v2": "HasherV2", "hy0": "HasherHybrid(padding=False)", "hy1": "HasherHybrid(padding=True)",
                "fh00": "FileHasher(hybrid=False,padding=False)", "fh01": "FileHasher(hybrid=False,padding=True)",
                "fh10": "FileHasher(hybrid=True,padding=False)", "fh11": "FileHasher(hybrid=True,padding=True)"}
modelrun.register("v2", "v2all", "np2")

# which observable fields of the hashers each property ties to the model
FIELDS = {
    "C02": ("root", "layer", "yielded_layers"),
    "C03": ("pieces", "pad", "yielded_pieces"),
    "C10": ("root", "layer", "pieces", "pad", "yielded_layers", "yielded_pieces", "end"),
}

TRUSTED_BASE = [
    "Coq 8.16.1 kernel; theorems closed under the global context; SHA-256 / SHA-1 are arbitrary functions H256 / H1 and the "
    "block size is an arbitrary B > 0 with pl = B * 2^k in every theorem",
    "hand-written models Model/HasherV2.v (merkle_root, HasherV2, HasherHybrid, FileHasher, next_power_2 on nat) tied to "
    "hasher.py by differential execution (extracted OCaml vs the real classes on the same files)",
    "Spec/Bep52.v (bep52_root, bep52_piece_layer, v1_inputs_padded, pad_file_length) cross-checked against the reference "
    "oracle's two independent BEP 52 formulations on the same inputs",
    "extraction: ExtrOcamlBasic, ExtrOcamlString; OCaml SHA-1 / SHA-256 (ocaml/sha.ml, self-tested against known digests) "
    "for the correspondence only",
    "open/readinto/getsize/listdir on regular files behave as specified; no concurrent writer",
]
ASSUMPTIONS = [
    "no special files, dangling links, link loops or symlinked DIRECTORIES in the content tree (symbolic links to files of the "
    "payload are part of the end-to-end search: the creators follow them, a link is a file named like the link with the target's "
    "bytes; the Coq models have no notion of a link and their correspondence runs on link-free trees); piece length is a power "
    "of two >= 16 KiB (C12 normalises it)",
    "small-scope cases marked patched_constant run the real classes with torrentfile.hasher.BLOCK_SIZE patched to 4 "
    "(the theorems hold for every B > 0; the real-BLOCK_SIZE cases are counted separately)",
    "creator-level statements (file tree, piece layers dictionary, files list) are checked end to end against the "
    "reference oracle; their Coq counterparts are those of Proofs/CreatorsProofs.v when present in the Props file",
    "the order of dictionary keys / canonical encoding of the metafile is C06's subject, the enumeration order C08's",
]


# normalised-AST hashes (core.ast_hash) of the hand-modelled functions at the time the models were written.
# A changed hash is not an alarm (DESIGN 2.2): it is recorded in the evidence and raises the correspondence budget
# (the quick tier then also runs the exhaustive small scopes / three times the trees).
PINNED_AST = {
    "hasher.py:merkle_root": "af6380d253f26844",
    "hasher.py:HasherV2.__init__": "a793c4fe2565feee",
    "hasher.py:HasherV2.process_file": "e07e40eaf0538e34",
    "hasher.py:HasherV2._calculate_root": "d0b889f95d7f2545",
    "hasher.py:HasherHybrid.__init__": "1265b51bc4a80ce2",
    "hasher.py:HasherHybrid._pad_remaining": "116802fd1d237380",
    "hasher.py:HasherHybrid.process_file": "3eccc12fcaab89bb",
    "hasher.py:HasherHybrid._calculate_root": "cdf6cb7bc11e6faa",
    "hasher.py:FileHasher.__init__": "4afee2fb4ba7871a",
    "hasher.py:FileHasher.__iter__": "1317b80cc879e83b",
    "hasher.py:FileHasher._pad_remaining": "116802fd1d237380",
    "hasher.py:FileHasher.__next__": "e563da67427dcbd1",
    "hasher.py:FileHasher._calculate_root": "4e7eefdaf2c3d084",
    "utils.py:next_power_2": "edf2f49d75b66e79",
    "torrent.py:TorrentFileV2.__init__": "2d55c97eba0bee4e",
    "torrent.py:TorrentFileV2.assemble": "94252d4b9773b811",
    "torrent.py:TorrentFileV2._traverse": "03790994f32e33bf",
    "torrent.py:TorrentFileHybrid.__init__": "4e736e74ec30688f",
    "torrent.py:TorrentFileHybrid.assemble": "2e65522e46a9e364",
    "torrent.py:TorrentFileHybrid._traverse": "36b7deac77d5fb90",
    "torrent.py:TorrentAssembler.__init__": "ad4d28f4f4b8747f",
    "torrent.py:TorrentAssembler.assemble": "7c43ef37a1787487",
    "torrent.py:TorrentAssembler._traverse": "4e82ab8222959110",
}


def record_ast(ctx):
    """stores the current hashes in the evidence; returns the names whose source changed since the models were written"""
    now = {}
    try:
        for f in ("hasher.py", "utils.py", "torrent.py"):
            names = [k.split(":", 1)[1] for k in PINNED_AST if k.startswith(f + ":")]
            got = core.ast_hash(os.path.join(core.REPO, "torrentfile", f), names)
            now.update({f + ":" + k: v for k, v in got.items()})
    except Exception as e:  # noqa
        ctx.notes.append(f"ast hash failed: {e}")
        return sorted(PINNED_AST)
    changed = sorted(k for k in PINNED_AST if now.get(k) != PINNED_AST[k])
    if getattr(ctx, "pinned_ast_changed", None) is not None:
        # replay of a recorded run: its case lists were shaped by the flags of the tree it ran against
        changed = list(ctx.pinned_ast_changed)
    ctx.extra["ast_hashes"] = now
    ctx.extra["ast_changed_since_model"] = changed
    if changed:
        ctx.notes.append("source of hand-modelled functions changed since the models were written (correspondence budget "
                         "raised): " + ", ".join(changed))
    return changed


class NoProg:
    def update(self, *_):
        pass

    def close_out(self):
        pass


# ------------------------------------------------------------------------------ patched constants
@contextlib.contextmanager
def block_size(b):
    """run the real hashers and the reference oracle with block size b (no-op for the real constant)"""
    core.use_repo_in_process()
    from torrentfile import hasher as hm
    old_impl, old_ref = hm.BLOCK_SIZE, oracle.BLOCK
    try:
        if b != old_impl:
            hm.BLOCK_SIZE = b
        oracle.BLOCK = b
        yield
    finally:
        hm.BLOCK_SIZE = old_impl
        oracle.BLOCK = old_ref


# ------------------------------------------------------------------------------ real hashers
def _b(x):
    if x is None:
        return None
    if isinstance(x, (bytes, bytearray)):
        return bytes(x)
    if isinstance(x, list) and not x:        # merkle_root([]) returns the empty list
        return b""
    return ("unexpected", repr(x)[:80])


def _pad(pf):
    """padding_file: None -> None, well-formed dict -> its length, anything else -> a marker that compares unequal"""
    if pf is None:
        return None
    if isinstance(pf, dict) and set(pf) == {"attr", "length", "path"} and pf["attr"] == "p" \
            and isinstance(pf["length"], int) and pf["path"] == [".pad", str(pf["length"])]:
        return pf["length"]
    return ("malformed", repr(pf)[:120])


def has_padding_parameter():
    """the hybrid hashers take `padding` (the creators switch it off for a single file); the model has it"""
    import inspect
    from torrentfile import hasher as hm
    return all("padding" in inspect.signature(c.__init__).parameters for c in (hm.HasherHybrid, hm.FileHasher))


def real_all(path, pl):
    """every v2-capable hasher on one file; FileHasher is iterated to exhaustion the way TorrentAssembler does"""
    from torrentfile import hasher as hm
    res = {}
    h = hm.HasherV2(path, pl, progress=0, progress_bar=NoProg())
    res["v2"] = {"root": _b(h.root), "layer": _b(h.piece_layer)}
    for pad in (0, 1):
        if not pad and not has_padding_parameter():
            res["hy0"] = res["fh00"] = res["fh10"] = None      # reported once by unit()
            continue
        kw = {"padding": bool(pad)} if has_padding_parameter() else {}
        h = hm.HasherHybrid(path, pl, progress=0, progress_bar=NoProg(), **kw)
        res[f"hy{pad}"] = {"root": _b(h.root), "layer": _b(h.piece_layer), "pieces": [bytes(p) for p in h.pieces],
                           "pad": _pad(h.padding_file)}
    for hyb in (0, 1):
        for pad in (0, 1):
            if not pad and not has_padding_parameter():
                continue
            kw = {"padding": bool(pad)} if has_padding_parameter() else {}
            h = hm.FileHasher(path, pl, progress=0, hybrid=bool(hyb), progress_bar=NoProg(), **kw)
            yl, yp = [], []
            for result in h:
                if hyb:
                    layer_hash, piece = result
                    yp.append(bytes(piece))
                else:
                    layer_hash = result
                yl.append(bytes(layer_hash))
            if not h.current.closed:
                h.current.close()
            res[f"fh{hyb}{pad}"] = {"root": _b(h.root), "layer": _b(h.piece_layer),
                                    "pieces": [bytes(p) for p in h.pieces], "pad": _pad(h.padding_file),
                                    "yielded_layers": yl, "yielded_pieces": yp, "end": bool(h.end)}
    return res


# ------------------------------------------------------------------------------ model output
def _unhex(s):
    return b"" if s == "-" else bytes.fromhex(s)


def _unlist(s):
    return [] if s == "-" else [bytes.fromhex(x) for x in s.split(",")]


def _unpad(s):
    return None if s == "None" else int(s)


def parse_v2all(line):
    parts = line.split(";")
    if len(parts) != 7:
        raise ValueError("model output: " + line[:200])
    res = {}
    r, l = parts[0].split("|")
    res["v2"] = {"root": _unhex(r), "layer": b"".join(_unlist(l))}
    for name, p in zip(("hy0", "hy1"), parts[1:3]):
        r, l, ps, pad = p.split("|")
        res[name] = {"root": _unhex(r), "layer": b"".join(_unlist(l)), "pieces": _unlist(ps), "pad": _unpad(pad)}
    for name, p in zip(("fh00", "fh01", "fh10", "fh11"), parts[3:]):
        r, l, ps, pad, yl, yp, end = p.split("|")
        res[name] = {"root": None if r == "None" else _unhex(r), "layer": None if l == "None" else b"".join(_unlist(l)),
                     "pieces": _unlist(ps), "pad": _unpad(pad), "yielded_layers": _unlist(yl),
                     "yielded_pieces": _unlist(yp), "end": end == "1"}
    return res


def parse_bep52(line):
    r, l, padded, plain, pad = line.split("|")
    return {"root": _unhex(r), "layer": b"".join(_unlist(l)), "padded": _unlist(padded), "plain": _unlist(plain),
            "pad": _unpad(pad)}


def run_models(fn, lines, jobs=8):
    """modelrun.run in parallel shards (the driver is a pure function of each line); None on failure"""
    if not lines:
        return []
    # balance shards by payload
    order = sorted(range(len(lines)), key=lambda i: -len(lines[i][-1]))
    shards = [[] for _ in range(min(jobs, len(lines)))]
    load = [0] * len(shards)
    for i in order:
        j = load.index(min(load))
        shards[j].append(i)
        load[j] += len(lines[i][-1]) + 1000
    with ThreadPoolExecutor(len(shards)) as ex:
        outs = list(ex.map(lambda sh: modelrun.run(fn, [lines[i] for i in sh]), shards))
    if any(o is None for o in outs):
        return None
    res = [None] * len(lines)
    for sh, o in zip(shards, outs):
        for i, line in zip(sh, o):
            res[i] = line
    return res


# ------------------------------------------------------------------------------ boundary classes (Appendix B, v2 hashing)
def _pow2(n):
    return n >= 1 and n & (n - 1) == 0


def classify_size(size, pl, b):
    cl = []
    if size == 0:
        return ["size = 0"]
    n = -(-size // b)
    if n == 1:
        cl.append("blocks n=1")
    if n >= 2 and _pow2(n):
        cl.append("blocks n=2^a")
    if n >= 3 and _pow2(n - 1):
        cl.append("blocks n=2^a+1")
    if n >= 3 and _pow2(n + 1):
        cl.append("blocks n=2^a-1")
    if size < b:
        cl.append("size < B")
    if size % b == 1 and size > 1:
        cl.append("size = k*B+1")
    if size % b == b - 1 and size >= b:
        cl.append("size = k*B-1")
    if size == pl:
        cl.append("size = pl")
    if size % pl == 1 and size > pl:
        cl.append("size = k*pl+1")
    if size % pl == pl - 1:
        cl.append("size = k*pl-1")
    p = -(-size // pl)
    if p in (1, 2, 3, 4, 5, 8, 9):
        cl.append(f"pieces={p}")
    if pl // b in (1, 2, 4, 8):
        cl.append(f"pl/B={pl // b}")
    last_piece = size % pl or pl
    if size % b and -(-last_piece // b) == pl // b:
        cl.append("short last block, full last piece")
    if size % b == 0 and size % pl:
        cl.append("full last block, short last piece")
    return cl


REQUIRED_V2 = ["blocks n=1", "blocks n=2^a", "blocks n=2^a+1", "blocks n=2^a-1", "size < B", "size = k*B+1", "size = k*B-1",
               "size = pl", "size = k*pl+1", "size = k*pl-1"] + [f"pieces={p}" for p in (1, 2, 3, 4, 5, 8, 9)] + \
              [f"pl/B={a}" for a in (1, 2, 4, 8)] + ["short last block, full last piece", "full last block, short last piece"]
REQUIRED_CREATORS = ["single file", "flat", "nested", "full-path order != per-directory order",
                     "identical files (shared root)", ">= 2 multi-piece files whose roots sort against tree order",
                     "empty directory present"] + ["file symlink " + s for s in trees.LINK_SHAPES] + trees.NAME_CLASSES + \
                    ["payload path has a glob metacharacter", "payload path has a decomposed (NFD) name"]


def boundary_sizes(pl, b, limit=LIMIT):
    s = {1, min(100, b - 1) or 1, b - 1, b, b + 1}
    for k in (2, 3, 4, 5, 8, 9):
        s |= {k * b - 1, k * b, k * b + 1}
    for k in (1, 2, 3, 4, 5, 8, 9):
        s |= {k * pl - 1, k * pl, k * pl + 1}
    for k in (1, 2, 3):
        s |= {k * pl - b, k * pl + b, (k + 1) * pl - b - 1, k * pl + b + 1}
    s |= {7 * b, 7 * b - 1, pl // 2, pl // 2 + 1}
    return sorted(x for x in s if 0 < x <= limit)


def unit_cases(ctx):
    """(B, pl, size, patched) -- the boundary set with the real BLOCK_SIZE in both tiers; random sizes and the
       exhaustive small scope with the patched constant in the thorough tier (a sample of it in the quick tier)"""
    cases = []
    for a in (1, 2, 4, 8):
        pl = a * B_REAL
        for s in boundary_sizes(pl, B_REAL):
            cases.append((B_REAL, pl, s, False))
    cases.append((B_REAL, B_REAL, 0, False))
    cases.append((B_REAL, 4 * B_REAL, 0, False))
    raised = any(not k.startswith("torrent.py") for k in ctx.extra.get("ast_changed_since_model", []))
    if ctx.tier == "thorough" or raised:
        for _ in range(400 if ctx.tier == "thorough" else 30):
            pl = ctx.rng.choice([1, 2, 4, 8, 16, 32]) * B_REAL
            cases.append((B_REAL, pl, ctx.rng.randrange(1, min(LIMIT, 10 * pl)), False))
        for pl in (4, 8, 16, 32, 64):
            for s in range(0, 161):
                cases.append((4, pl, s, True))
        # a second patched scope: B = 1 is the degenerate block size, B = 3 is not a power of two
        for b, pls in ((1, (1, 2, 4, 8)), (3, (3, 6, 12, 24))):
            for pl in pls:
                for s in range(0, 60):
                    cases.append((b, pl, s, True))
    else:
        for pl in (4, 8, 16, 32):
            for s in ctx.rng.sample(range(0, 161), 30):
                cases.append((4, pl, s, True))
    return cases


def case_data(salt, b, pl, size):
    return random.Random(f"{salt}:{b}:{pl}:{size}").randbytes(size)


# ------------------------------------------------------------------------------ one file AT SCALE through every hasher
# Piece lengths of 1 .. 32 MiB and files of 1 .. 65 MiB aimed at read windows of 1 / 4 / 8 / 16 MiB, at reusable zero buffers and
# at capped padding tables (harness/scale.py says why).  Judged by the reference oracle (C02, C03) / against each other (C10)
# exactly like the small files; never sent to the extracted models (a `list byte` of that size does not fit).
MIB = scale.MIB
SCALE_UNIT_QUICK = [
    (2 * MIB, 3 * MIB),                 # a multiple of 1 MiB that is not a multiple of the piece length
    (2 * MIB, 2 * MIB + 100),           # almost a whole piece of padding (more than 1 MiB)
    (4 * MIB, 5 * MIB + 1),
    (8 * MIB, 12 * MIB + 7),            # last piece just above 4 MiB
    (8 * MIB, 12 * MIB),                # file ends exactly 4 MiB into a piece
    (16 * MIB, 25 * MIB + 123),         # more than 8 MiB in the last piece
    (16 * MIB, 5 * MIB),                # less than one piece, more than 4 MiB
    (32 * MIB, 65 * MIB),               # 2048 blocks per piece; 3 pieces; last piece 1 MiB (1984 blocks of padding)
]
SCALE_UNIT_MORE = [
    (MIB, MIB + 1), (MIB, 3 * MIB), (MIB, 2 * MIB + MIB // 2), (2 * MIB, MIB), (2 * MIB, MIB + 5000), (2 * MIB, 4 * MIB),
    (2 * MIB, 5 * MIB + 77), (4 * MIB, 4 * MIB - 1), (4 * MIB, 9 * MIB), (4 * MIB, 6 * MIB + 1), (8 * MIB, 4 * MIB),
    (8 * MIB, 4 * MIB + 1), (8 * MIB, 9 * MIB + 5), (8 * MIB, 24 * MIB), (16 * MIB, 24 * MIB), (16 * MIB, 16 * MIB + 1),
    (16 * MIB, 33 * MIB + MIB - 1), (16 * MIB, 3 * MIB), (32 * MIB, 49 * MIB), (32 * MIB, 16 * MIB + 5), (32 * MIB, 32 * MIB),
    (32 * MIB, 32 * MIB + B_REAL + 1),
]


def scale_unit_cases(tier, salt):
    """(piece length, size) of the single files at scale: the aimed ones; in the thorough tier more aimed ones and random
       sizes k MiB + r (r in {0, 1, 123, one block, 1 MiB - 1, random}) for piece lengths 1 .. 16 MiB"""
    cases = list(SCALE_UNIT_QUICK)
    if tier == "thorough":
        cases += SCALE_UNIT_MORE
        rng = random.Random(f"{salt}:scale-unit")
        for _ in range(24):
            pl = rng.choice([1, 2, 4, 8, 16]) * MIB
            k = rng.randrange(0, 3 * pl // MIB + 2)
            r = rng.choice([0, 1, 123, B_REAL, MIB - 1, rng.randrange(MIB)])
            cases.append((pl, (k * MIB + r) or (pl + MIB + 9)))
    return cases


def classify_scale(size, pl):
    """boundary classes of one file at scale (all prefixed: they do not count towards the classes required of the small files)"""
    cl = ["scale: hashers on one file, piece length %d MiB" % (pl // MIB)]
    tail = size % pl
    if size % MIB == 0 and tail:
        cl.append("scale: file size a multiple of 1 MiB but not of the piece length")
    for w in (1, 4, 8, 16):
        if tail > w * MIB:
            cl.append("scale: last piece of a file longer than %d MiB" % w)
        if 0 < tail < pl - w * MIB:
            cl.append("scale: more than %d MiB of padding after a file" % w)
    pieces = -(-size // pl)
    if pieces >= 3 and not _pow2(pieces):
        cl.append("scale: piece count not a power of two")
    if size < pl:
        cl.append("scale: file shorter than one piece")
    if size > pl and tail and not _pow2(-(-tail // B_REAL)):
        cl.append("scale: block count of the last piece not a power of two")
    return cl


def unit_scale(ctx, prop, salt, tmp):
    """every v2-capable hasher on one file at scale, judged like the small files (reference oracle / each other)"""
    path = os.path.join(tmp, "scale.bin")
    for pl, size in scale_unit_cases(ctx.tier, salt):
        data = case_data(salt, B_REAL, pl, size)
        with open(path, "wb") as fd:
            fd.write(data)
        inp = {"kind": "unit", "B": B_REAL, "piece_length": pl, "size": size, "salt": salt, "patched_constant": False, "scale": True,
               "case": f"unit:{salt}:{B_REAL}:{pl}:{size}", "ast_changed": ctx.extra.get("ast_changed_since_model", [])}
        cl = classify_scale(size, pl)
        ctx.case(key=("unit", B_REAL, pl, size), classes=cl, nontrivial=True)
        try:
            res = real_all(path, pl)
        except Exception as e:  # noqa
            ctx.fail("hasher-raised", inp, "root, layer, pieces", f"{type(e).__name__}: {e}")
            continue
        for kind, h, exp, obs in oracle_problems(prop, res, data, pl):
            ctx.fail(kind, dict(inp, hasher=HASHER_NAMES.get(h, h)), _short(exp), _short(obs))
    if os.path.exists(path):
        os.remove(path)


# ------------------------------------------------------------------------------ hashers vs the reference
def oracle_problems(prop, res, data, pl):
    """violations of the property by the real hashers on one file: list of (kind, hasher, expected, observed)"""
    out = []
    size = len(data)
    if prop == "C02" and size:
        root = oracle.pieces_root(data)
        layer = b"".join(oracle.piece_layer(data, pl))
        if size > pl and oracle.root_from_layer(oracle.piece_layer(data, pl), pl) != root:
            raise AssertionError("reference: root recomputed from the piece layer differs from the root")
        for h in HASHERS:
            if res[h] is None:
                continue
            if res[h]["root"] != root:
                out.append(("hasher-root-vs-bep52", h, root, res[h]["root"]))
            if size > pl:
                if res[h]["layer"] != layer:
                    out.append(("hasher-layer-vs-bep52", h, layer, res[h]["layer"]))
                if h.startswith("fh") and b"".join(res[h]["yielded_layers"]) != layer:
                    out.append(("hasher-layer-vs-bep52", h + " (yielded)", layer, b"".join(res[h]["yielded_layers"])))
            if len(res[h]["layer"] or b"") != 32 * -(-size // pl):
                out.append(("hasher-layer-length", h, 32 * -(-size // pl), len(res[h]["layer"] or b"")))
    if prop == "C03" and size:
        gap = -size % pl
        padded = oracle.v1_pieces(data + bytes(gap), pl)
        plain = oracle.v1_pieces(data, pl)
        for h, want, wpad in (("hy1", padded, gap or None), ("fh11", padded, gap or None),
                              ("hy0", plain, None), ("fh10", plain, None)):
            if res[h] is None:
                continue
            if res[h]["pieces"] != want:
                out.append(("hasher-v1-pieces", h, want, res[h]["pieces"]))
            if res[h]["pad"] != wpad:
                out.append(("hasher-padding-file", h, wpad, res[h]["pad"]))
            if h.startswith("fh") and res[h]["yielded_pieces"] != want:
                out.append(("hasher-v1-pieces", h + " (yielded)", want, res[h]["yielded_pieces"]))
    if prop == "C10":
        ref = res["v2"]
        for h in HASHERS[1:]:
            if res[h] is None:
                continue
            if res[h]["root"] != ref["root"]:
                out.append(("hashers-disagree-root", h, ref["root"], res[h]["root"]))
            if res[h]["layer"] != ref["layer"]:
                out.append(("hashers-disagree-layer", h, ref["layer"], res[h]["layer"]))
            if h.startswith("fh") and b"".join(res[h]["yielded_layers"]) != ref["layer"]:
                out.append(("hashers-disagree-layer", h + " (yielded)", ref["layer"], b"".join(res[h]["yielded_layers"])))
        for pad in "01":
            a, b_ = res["hy" + pad], res["fh1" + pad]
            if a is None:
                continue
            if a["pieces"] != b_["pieces"] or b_["yielded_pieces"] != a["pieces"]:
                out.append(("hashers-disagree-v1-pieces", f"hy{pad} vs fh1{pad}", a["pieces"], b_["pieces"]))
            if a["pad"] != b_["pad"]:
                out.append(("hashers-disagree-padding", f"hy{pad} vs fh1{pad}", a["pad"], b_["pad"]))
            c = res["fh0" + pad]
            if c["pieces"] or c["yielded_pieces"] or c["pad"] is not None:
                out.append(("hashers-disagree-v1-pieces", f"fh0{pad} (not hybrid)", "no pieces, no padding",
                            (c["pieces"], c["pad"])))
    return out


def _short(v):
    if isinstance(v, (bytes, bytearray)):
        return bytes(v).hex()[:96] + (f"... ({len(v)} bytes)" if len(v) > 48 else "")
    if isinstance(v, list):
        return [_short(x) for x in v[:4]] + ([f"... ({len(v)} items)"] if len(v) > 4 else [])
    if isinstance(v, tuple):
        return [_short(x) for x in v]
    return v


def unit(ctx, prop, model_ok):
    """the hashers vs their models (fields of this property), vs the reference, vs each other"""
    core.use_repo_in_process()
    fields = FIELDS[prop]
    salt = ctx.rng.getrandbits(48)
    cases = unit_cases(ctx)
    lines, spec_lines, impl, meta = [], [], [], []
    if not has_padding_parameter() and prop == "C03":
        # C02 / C10 do not depend on the flag: root and layer are the same for both values (hasher_hybrid_agrees_v2)
        # and the two hybrid hashers are compared with the same setting; the single-file statements of C03 do
        ctx.disagree("Model/HasherV2.v vs hasher.py: HasherHybrid / FileHasher have no `padding` parameter",
                     {"kind": "interface", "case": "interface"}, "hasher_hybrid padding pl data, file_hasher hybrid padding pl data",
                     "no such parameter: the padding=False rows of the model are not tied to the code")
    with core.Scratch("v" + prop.lower() + "u_") as tmp:
        path = os.path.join(tmp, "file.bin")
        for b in sorted({c[0] for c in cases}, reverse=True):       # the real constant first
            with block_size(b):
                for (cb, pl, size, patched) in cases:
                    if cb != b:
                        continue
                    data = case_data(salt, b, pl, size)
                    with open(path, "wb") as fd:
                        fd.write(data)
                    inp = {"kind": "unit", "B": b, "piece_length": pl, "size": size, "salt": salt, "patched_constant": patched,
                           "case": f"unit:{salt}:{b}:{pl}:{size}", "ast_changed": ctx.extra.get("ast_changed_since_model", [])}
                    try:
                        res = real_all(path, pl)
                    except Exception as e:  # noqa
                        ctx.fail("hasher-raised", inp, "root, layer, pieces", f"{type(e).__name__}: {e}")
                        continue
                    for kind, h, exp, obs in oracle_problems(prop, res, data, pl):
                        ctx.fail(kind, dict(inp, hasher=HASHER_NAMES.get(h, h)),
                                 _short(exp), _short(obs))
                    cl = classify_size(size, pl, b)
                    if patched:
                        cl = ["patched_constant"] + [f"patched_constant B={b}: " + c for c in cl if not c.startswith("pl/B")]
                    ctx.case(key=("unit", b, pl, size), classes=cl, nontrivial=bool(cl),
                             sample=inp if (size, pl) == (3 * B_REAL + 1, 2 * B_REAL) else None)
                    lines.append((str(b), str(pl), data.hex()))
                    k = (pl // b).bit_length() - 1
                    spec_lines.append((str(b), str(k), data.hex()))
                    impl.append(res)
                    meta.append((inp, data))
        # files at scale (real constant; reference / mutual judgement only, nothing for the models)
        unit_scale(ctx, prop, salt, tmp)
    if not model_ok:
        return
    outs = run_models("v2all", lines)
    spec = run_models("bep52", spec_lines)
    if outs is None or spec is None:
        ctx.broken.append("extracted model driver (area v2) failed to run")
        return
    for (inp, data), res, o, s in zip(meta, impl, outs, spec):
        if o.startswith("ERROR") or s.startswith("ERROR"):
            ctx.broken.append(f"model driver: {o[:80]} {s[:80]} on {inp}")
            continue
        model = parse_v2all(o)
        ctx.traces_validated += 1
        for h in HASHERS:
            if res[h] is None:
                continue
            for f in fields:
                if f in model[h] and model[h][f] != res[h].get(f):
                    ctx.disagree(f"Model/HasherV2.v vs hasher.py: {HASHER_NAMES[h]}.{f}", inp,
                                 _short(model[h][f]), _short(res[h].get(f)))
        # Spec/Bep52.v vs the reference formulations (same block size)
        if inp["size"]:
            sp = parse_bep52(s)
            pl = inp["piece_length"]
            with block_size(inp["B"]):
                if prop in ("C02", "C10"):
                    if sp["root"] != oracle.pieces_root(data):
                        ctx.disagree("Spec/Bep52.v bep52_root vs reference oracle", inp, _short(sp["root"]),
                                     _short(oracle.pieces_root(data)))
                    if sp["layer"] != b"".join(oracle.piece_layer(data, pl)):
                        ctx.disagree("Spec/Bep52.v bep52_piece_layer vs reference oracle", inp, _short(sp["layer"]),
                                     _short(b"".join(oracle.piece_layer(data, pl))))
                if prop in ("C03", "C10"):
                    gap = -len(data) % pl
                    if sp["padded"] != oracle.v1_pieces(data + bytes(gap), pl) or sp["plain"] != oracle.v1_pieces(data, pl) \
                            or sp["pad"] != (gap or None):
                        ctx.disagree("Spec/Bep52.v v1_inputs_padded / pad_file_length vs reference oracle", inp,
                                     _short(sp["padded"]), _short(oracle.v1_pieces(data + bytes(gap), pl)))


def small_functions(ctx, model_ok):
    """merkle_root on lists of any length (odd tails are dropped) and next_power_2 against their models"""
    core.use_repo_in_process()
    from torrentfile.hasher import merkle_root
    from torrentfile.utils import next_power_2
    lists = [[ctx.rng.randbytes(32) for _ in range(n)] for n in list(range(0, 20)) + [31, 32, 33]]
    lines = [(",".join(x.hex() for x in l) or "-",) for l in lists]
    got = [_b(merkle_root(list(l))) for l in lists]
    ns = list(range(0, 70)) + [127, 128, 129, 255, 256, 257, 1000]
    for l in lists:
        ctx.case(key=("merkle_root", len(l)), classes=["merkle_root on a list"], nontrivial=True)
    if not model_ok:
        return
    outs = modelrun.run("merkle_root", lines)
    nouts = modelrun.run("np2", [(str(n),) for n in ns])
    if outs is None or nouts is None:
        ctx.broken.append("extracted model driver (merkle_root / np2) failed to run")
        return
    for l, o, g in zip(lists, outs, got):
        ctx.traces_validated += 1
        if _unhex(o) != g:
            ctx.disagree("Model/HasherV2.v merkle_root vs hasher.merkle_root",
                         {"kind": "merkle_root", "blocks": len(l), "hashes_hex": ",".join(x.hex() for x in l) or "-",
                          "case": f"merkle_root:{len(l)}"}, o, _short(g))
    for n, o in zip(ns, nouts):
        if int(o) != next_power_2(n):
            ctx.disagree("Model/HasherV2.v next_power_2_nat vs utils.next_power_2",
                         {"kind": "next_power_2", "value": n, "case": f"np2:{n}"}, o, next_power_2(n))


def require_classes(ctx, required, minimum=2):
    for c in required:
        if ctx.classes.get(c, 0) < minimum:
            ctx.broken.append(f"boundary class '{c}' was hit {ctx.classes.get(c, 0)} times (< {minimum}): the run is not accepted")


# ------------------------------------------------------------------------------ content trees for the creators
OPTIONS = [
    {},
    {"comment": "a comment"},
    {"private": True, "source": "SRC"},
    {"announce": ["http://t.example/announce", "udp://u.example:6969"], "comment": "c d"},
    {"url_list": ["http://w.example/a", "http://w.example/b"], "httpseeds": ["http://h.example/s"]},
    {"announce": ["http://t.example/announce"], "private": True, "source": "x y", "comment": "z"},
]


def gen_case(salt, i):
    """content tree number i of a run: (pl, tree, empty_dirs, options, classes)"""
    rng = random.Random(f"{salt}:e2e:{i}")
    pl = rng.choice([16384, 16384, 32768, 65536])
    if i >= trees.AIMED0:       # the aimed small trees (structural shapes that must not depend on the luck of the generator)
        tree, cl = trees.aimed_small(i - trees.AIMED0, rng, pl)
        cl = (set(cl) - {"flat", "nested", "identical files"}) | trees.classify_names(tree)
        return pl, tree, [], dict(rng.choice(OPTIONS)), set(cl)
    # every fourth tree carries all the aimed name groups of trees.add_aimed_names (decomposed Unicode next to a sibling that
    # sorts between the two spellings, glob metacharacters in directory and file names, mixed-case siblings), the others now and then
    tree, cl = trees.gen_tree(rng, pl, single_prob=1.0 if i % 6 == 0 else 0.08,
                              name_groups=trees.NAME_GROUPS if i % 4 == 3 else None)
    empty_dirs = []
    single = list(tree) == [()]
    if not single:
        m = i % 6
        sub = ("mdir",) if rng.random() < 0.6 else ()
        if m == 1:      # several multi-piece files (their roots are random: half of the time against tree order)
            for name in (("m1.bin",), sub + ("m2.bin",), sub + ("m3.bin",))[:rng.choice([2, 3])]:
                tree[name] = rng.randbytes(rng.choice([pl + 1, 2 * pl, 3 * pl - 1, 2 * pl + B_REAL + 7, 5 * pl, 4 * pl + 1]))
        elif m == 2:    # identical multi-piece files share one root and one piece-layers entry
            data = rng.randbytes(rng.choice([pl + 1, 3 * pl, 2 * pl + 5]))
            tree[("dup1.bin",)] = data
            tree[sub + ("dup2.bin",)] = data
        elif m == 3:    # empty directories (not files: recorded as empty dictionaries by the traversal, not judged)
            empty_dirs = [("empty dir",)] + ([("mdir", "e")] if rng.random() < 0.5 else [])
        elif m == 4:    # the membership boundary of the piece layers: sizes pl (no entry) and pl+1 (entry)
            tree[("eq.bin",)] = rng.randbytes(pl)
            tree[sub + ("gt.bin",)] = rng.randbytes(pl + 1)
        elif m == 5:    # a flat directory
            flat = {}
            for k, v in tree.items():
                flat.setdefault((k[-1],), v)
            tree = flat
            cl.discard("full-path order != per-directory order")
    cl -= {"flat", "nested", "identical files"}      # recomputed from the final tree by classify_tree
    cl = (cl - set(trees.NAME_CLASSES)) | trees.classify_names(tree)      # the names of the final tree
    opts = dict(rng.choice(OPTIONS))
    if not single and (i % 4 == 1 or rng.random() < 0.12):
        # symbolic links to files of the payload (values ("symlink", target) of the tree, see trees.add_links): the creators
        # follow them, so the judgement is unchanged -- every link is a file named like the link with the target's bytes.
        # The deliberately flat directories only get a link to a sibling
        tree, lcl = trees.add_links(rng, tree, shapes=trees.LINK_SHAPES[:1] if i % 6 == 5 else trees.LINK_SHAPES)
        cl |= lcl
    return pl, tree, empty_dirs, opts, set(cl)


SCALE0 = 100000       # end-to-end tree numbers from here on are the payloads AT SCALE (harness/scale.py)
N_TPL = len(scale.TEMPLATES)


REQUIRED_SCALE = ["scale: piece length %d MiB" % n for n in (2, 4, 8, 16, 32)] + \
                 ["scale: hashers on one file, piece length %d MiB" % n for n in (2, 4, 8, 16, 32)] + \
                 ["scale: file size a multiple of 1 MiB but not of the piece length", "scale: piece count not a power of two",
                  "scale: block count of the last piece not a power of two", "scale: file shorter than one piece",
                  "scale: single file", "scale: directory"] + \
                 ["scale: last piece of a file longer than %d MiB" % n for n in (1, 4, 8)] + \
                 ["scale: more than %d MiB of padding after a file" % n for n in (1, 4, 8, 16)] + \
                 [f"scale: route {r} progress {p}" for r in ("library", "command line") for p in (0, 1, 2)] + \
                 ["scale: --piece-length given as the exponent", "scale: --piece-length given as bytes"]
RULE_NAMES = (
    "  NAMES (round 7): the shared pools of trees.py hold decomposed (NFD) Unicode names, names with the glob metacharacters * ? [ ] "
    "and mixed-case siblings; every fourth end-to-end tree (and a tenth of the trees of the creators unit correspondence, flavour "
    "'names') carries the aimed groups -- a decomposed name next to a sibling that sorts between its decomposed and its composed "
    "spelling (A + U+030A < B < U+00C5), as files and as directories, a directory 'Album [FLAC]' holding 'cd[1]' holding a file, a "
    "file 'a*b' next to 'aXb', 'README.txt' next to 'data.bin' -- and the payload directory / file itself is named in turn "
    "'payload', 'Album [FLAC]', a decomposed name, 'pay*load?', 'PayLoad.D': the file tree must list every name byte for byte as "
    "it is on disk (the judge reads the disk with os.listdir and compares bytes).")
RULE_SCALE = RULE_NAMES + (
    "  AT SCALE (harness/scale.py; judged by the same reference / mutual comparison as the small cases, never sent to the extracted "
    "models): (a) every v2-capable hasher on one file with piece lengths 2 .. 32 MiB -- a size that is a multiple of 1 MiB but not "
    "of the piece length, almost a whole piece of padding, a last piece just above / exactly at 4 MiB, more than 8 MiB in the last "
    "piece, a file shorter than one 16 MiB piece, and 65 MiB with 32 MiB pieces (2048 blocks per piece, 3 pieces, 1984 blocks of "
    "padding); the thorough tier adds piece length 1 MiB, 22 more aimed sizes and 24 random sizes k MiB + r; (b) end to end: the aimed "
    "templates of scale.py (piece lengths 2 .. 16 MiB, files of 1 .. 26 MiB around read windows of 1 / 4 / 8 MiB, more than 1 / 4 / "
    "8 MiB of padding after a file, a short file after a piece with data in its later windows, sizes one byte either side of a "
    "piece) and a 65 MiB file in a directory with 32 MiB pieces (31 MiB of padding), in the thorough tier also that file alone and "
    "random shapes (40 trees): EVERY class-based creator of the property runs on every such tree plain, with align=True and with "
    "assemble() called again, the progress mode (0 none / 1 a bar per file / 2 one bar) rotating over these creates, and EVERY "
    "command-line variant of the property runs on it with --prog 0|1|2 in turn and --piece-length spelled as the exponent (21..25) "
    "or in bytes in turn; a third of the random shapes also with the payload changing before the second assemble().")


def scale_indices(tier):
    """numbers (above SCALE0) of the trees at scale of a run: every aimed template and the 32 MiB one in the quick tier; in the
       thorough tier also the 32 MiB one as a single file and random shapes of the same kind"""
    return range(N_TPL + 1) if tier == "quick" else range(40)


def gen_scale_case(salt, j):
    """tree number SCALE0 + j of a run: (pl, tree, empty_dirs, options, classes).  j < N_TPL: the aimed templates of scale.py
       (piece lengths 2 .. 16 MiB); N_TPL: one 65 MiB file in a directory with 32 MiB pieces (the largest exponent the tool
       accepts, 2048 blocks per piece); N_TPL + 1: the same as a single file; above: random sizes k MiB + r"""
    rng = random.Random(f"{salt}:scale:{j}")
    if j <= N_TPL:
        pl, tree, cl = scale.gen(rng, j, thorough=True, single_ok=j < N_TPL)
    elif j == N_TPL + 1:
        pl, tree, cl = scale.gen(rng, N_TPL, thorough=True, single_ok=True)
    else:
        pl, tree, cl = scale.gen(rng, j, thorough=True, single_ok=bool(j % 2))
    sizes = [len(v) for v in tree.values()]
    for w in (4, 8, 16):
        if any(n % pl > w * MIB for n in sizes):
            cl.add("scale: last piece of a file longer than %d MiB" % w)
        if any(0 < n % pl < pl - w * MIB for n in sizes):
            cl.add("scale: more than %d MiB of padding after a file" % w)
    if any(-(-n // pl) >= 3 and not _pow2(-(-n // pl)) for n in sizes):
        cl.add("scale: piece count not a power of two")
    cl.add("scale: single file" if list(tree) == [()] else "scale: directory")
    opts = dict(rng.choice(OPTIONS))
    return pl, tree, [], opts, set(cl)


def root_name(i, single):
    """name of the payload of tree number i (trees.ROOT_NAMES in turn; the payloads at scale are all called payload)"""
    return ("payload.bin" if single else "payload") if i >= SCALE0 else trees.root_name(i, single)


root_name_classes = trees.root_name_classes


def has_changed_part(i):
    """which trees are also run with the payload changing between construction and the second assemble(): every small tree;
       at scale every third of the random shapes (the aimed templates are judged as they are)"""
    return i < SCALE0 or (i - SCALE0 > N_TPL + 1 and (i - SCALE0) % 3 == 0)


def write_case(root, tree, empty_dirs):
    trees.write_tree(root, tree)
    for d in empty_dirs:
        os.makedirs(os.path.join(root, *d), exist_ok=True)


_ROOTS = {}


def _root_of(data):
    if data not in _ROOTS:
        if len(_ROOTS) > 200 or sum(len(k) for k in _ROOTS) > (64 << 20):     # the keys are file contents: bounded in bytes too
            _ROOTS.clear()
        _ROOTS[data] = oracle.pieces_root(data)
    return _ROOTS[data]


def classify_tree(tree, pl, empty_dirs, order, base):
    """creator classes (Appendix B) plus the membership / padding boundaries; order = tree order of the paths"""
    cl = set(base)
    if list(tree) == [()]:
        cl.add("single file")
        sizes = [len(tree[()])]
    else:
        sizes = [len(v) for v in tree.values()]
        nonempty = [v for v in tree.values() if v]
        if len(set(nonempty)) < len(nonempty):
            cl.add("identical files (shared root)")
        multi_data = [tree[k] for k in order if len(tree[k]) > pl]
        if len(set(multi_data)) < len(multi_data):
            cl.add("identical multi-piece files (one piece-layers entry)")
        if len(set(multi_data)) >= 2:
            cl.add(">= 2 multi-piece files")
            roots = [_root_of(d) for d in multi_data]
            if roots != sorted(roots):
                cl.add(">= 2 multi-piece files whose roots sort against tree order")
        if empty_dirs:
            cl.add("empty directory present")
        cl.add("nested" if any(len(k) > 1 for k in tree) or any(len(d) > 1 for d in empty_dirs) else "flat")
        if order and len(tree[order[-1]]) % pl == 0:
            cl.add("last file needs no padding")
        if order and len(tree[order[-1]]) == 0:
            cl.add("empty file last")
    if 0 in sizes:
        cl.add("empty file")
    if pl in sizes:
        cl.add("file size = pl (no piece-layers entry)")
    if pl + 1 in sizes:
        cl.add("file size = pl+1")
    if not any(s > pl for s in sizes):
        cl.add("no multi-piece file (empty piece layers)")
    if any(s and s % pl == 0 for s in sizes):
        cl.add("file size = k*pl (no padding entry)")
    if any(s % pl == pl - 1 for s in sizes):
        cl.add("file size = k*pl-1 (padding of 1 byte)")
    if any(0 < s < B_REAL for s in sizes):
        cl.add("file size < B")
    return cl


def decode(raw):
    try:
        return oracle.bdecode_strict(raw)
    except Exception:  # noqa  canonical form is C06's subject; read leniently here
        import pyben
        return c01._to_bytes(pyben.loads(raw))


def cli_variant(v):
    """2 | 3 | "3-align" | "3-config" -> (meta version, how): plain, `--align`, or `align = true` in a configuration file"""
    ver, _, how = str(v).partition("-")
    return ver, how


def cli_label(v):
    ver, how = cli_variant(v)
    return {"": f"cli --meta-version {ver}", "align": f"cli --align --meta-version {ver}",
            "config": f"cli --config (align = true) --meta-version {ver}"}[how]


def cli_create(version, root, out, pl, opts, progress="0", pl_arg=None):
    """`torrentfile create`; progress: --prog 0|1|2; pl_arg: how the piece length is spelled (bytes by default, or the exponent)"""
    core.use_repo_in_process()
    from torrentfile import utils
    from torrentfile.cli import execute
    cache = getattr(utils.filelist_total, "cache", None)
    if cache is not None:
        cache.clear()
    version, how = cli_variant(version)
    argv = ["create", root, "--meta-version", str(version), "--piece-length", str(pl_arg or pl), "-o", out, "--prog", str(progress)]
    if how == "align":          # documented as an option of v1 metafiles, accepted for every version: it must not change the others
        argv += ["--align"]
    elif how == "config":
        ini = out + ".ini"
        with open(ini, "w") as fd:
            fd.write("[config]\nalign = true\n")
        argv += ["--config", "--config-path", ini]
    if opts.get("comment"):
        argv += ["--comment", opts["comment"]]
    if opts.get("source"):
        argv += ["--source", opts["source"]]
    if opts.get("private"):
        argv += ["--private"]
    if opts.get("announce"):
        argv += ["-a"] + list(opts["announce"])
    if opts.get("url_list"):
        argv += ["--web-seed"] + list(opts["url_list"])
    if opts.get("httpseeds"):
        argv += ["--http-seed"] + list(opts["httpseeds"])
    trees.quiet(execute, argv)
    return oracle.read(out)


KIND_OF_CLI = {v: cli_label(v) for v in (2, 3, "2-align", "3-align", "2-config", "3-config")}
# variants of a class-based creator on one tree (label suffixes): the `align` option (an option of v1 metafiles that every
# creator accepts: library keyword, --align, `align = true` in the configuration file) and the legacy pattern of the library:
# construct (assembles) -> write() -> the PUBLIC assemble() again on the same object -> write()
ALIGN = " +align"
AGAIN = " assemble() again"
CHANGED = " assemble() again after the payload changed"


def base_kind(label):
    """the creator (key of trees.CREATORS) or command line behind a label of case['metas']"""
    for suffix in (ALIGN, AGAIN, CHANGED):
        if label.endswith(suffix):
            return label[:-len(suffix)]
    return label


def _create(metas, label, fn):
    try:
        metas[label] = decode(fn())
    except (Exception, SystemExit) as e:  # noqa  (argparse exits with SystemExit)
        metas[label] = e


def build_case(tmp, salt, i, kinds, cli_versions):
    """write tree number i and run the creators; returns dict(pl, tree, root, single, metas{label: decoded|Exception}, ...).
       Every creator of `kinds` runs plain, with align=True and re-assembled on the unchanged tree; case['changed'] is a second
       case on a copy of the payload: the creators are constructed, the payload changes (trees.mutate_tree), assemble() is called
       again and write(): judged -- like a fresh create, which is run next to it -- against the copy as it is on disk then"""
    at_scale = i >= SCALE0
    pl, ltree, empty_dirs, opts, base = gen_scale_case(salt, i - SCALE0) if at_scale else gen_case(salt, i)
    tree = trees.resolve_links(ltree)       # what a reader sees; ltree (with the links) is only what gets written
    routes = {}

    def route(label, n):
        """at scale the progress mode rotates over the creates of a tree (0 none, 1 a bar per file, 2 one bar for the torrent);
           the command line also alternates between the two spellings of the piece length (bytes / exponent 21..25)"""
        if not at_scale:
            return {}
        routes[label] = {"progress": (i + n) % 3}
        if "cli" in label:
            routes[label]["piece_length_argument"] = str(pl.bit_length() - 1) if (i + n) % 2 == 0 else str(pl)
        return routes[label]
    single = list(tree) == [()]
    name = root_name(i, single)
    base = set(base) | root_name_classes(name)
    root = os.path.join(tmp, f"c{i}", name)
    write_case(root, ltree, empty_dirs)
    metas = {}
    for k, kind in enumerate(kinds):
        out = os.path.join(tmp, f"c{i}", kind)
        _create(metas, kind, lambda: trees.create(kind, root, out + ".torrent", pl, **route(kind, k), **opts))
        _create(metas, kind + ALIGN, lambda: trees.create(kind, root, out + "-align.torrent", pl, align=True,
                                                          **route(kind + ALIGN, k + 1), **opts))
        _create(metas, kind + AGAIN, lambda: trees.create(kind, root, out + "-again.torrent", pl, reassemble=True,
                                                          **route(kind + AGAIN, k + 2), **opts))
    for k, v in enumerate(cli_versions):
        out = os.path.join(tmp, f"c{i}", f"cli{v}.torrent")
        if at_scale:
            r = route(cli_label(v), k)
            _create(metas, cli_label(v), lambda: cli_create(v, root, out, pl, opts, progress=r["progress"],
                                                            pl_arg=r["piece_length_argument"]))
        else:
            _create(metas, cli_label(v), lambda: cli_create(v, root, out, pl, opts))
    disk = oracle.walk_tree(root)
    order = [comps for comps, _ in disk]
    classes = classify_tree(tree, pl, empty_dirs, order if not single else [], base)
    case = {"pl": pl, "tree": tree, "root": root, "single": single, "metas": metas, "opts": opts,
            "disk": disk, "classes": classes, "empty_dirs": empty_dirs, "i": i, "salt": salt,
            "kinds": list(kinds), "cli_versions": list(cli_versions), "changed": None, "links": trees.link_summary(ltree),
            "routes": routes}
    if not has_changed_part(i):
        return case
    # the payload changes between construction and the second assemble()
    rng = random.Random(f"{salt}:e2e-change:{i}")
    lnew, how = trees.mutate_tree(rng, ltree, pl)
    new = trees.resolve_links(lnew)
    root2 = os.path.join(tmp, f"c{i}", "changed", name)
    metas2 = {}
    for kind in kinds:
        shutil.rmtree(os.path.dirname(root2), ignore_errors=True)
        write_case(root2, ltree, empty_dirs)                    # the state at construction
        out = os.path.join(tmp, f"c{i}", "changed", kind)
        _create(metas2, kind + CHANGED, lambda: trees.create(kind, root2, out + "-again.torrent", pl,
                                                             reassemble=lambda: trees.rewrite_tree(root2, ltree, lnew), **opts))
        if isinstance(metas2[kind + CHANGED], BaseException):   # wherever it stopped: the judged state is `new`
            shutil.rmtree(os.path.dirname(root2), ignore_errors=True)
            write_case(root2, lnew, empty_dirs)
        _create(metas2, kind, lambda: trees.create(kind, root2, out + ".torrent", pl, **opts))
    disk2 = oracle.walk_tree(root2)
    case["changed"] = dict(case, tree=new, root=root2, metas=metas2, disk=disk2, changed=None, change=how, tree_at_construction=tree,
                           routes={},
                           links=trees.link_summary(lnew),
                           classes=classify_tree(new, pl, empty_dirs, [c for c, _ in disk2] if not single else [], set()))
    return case


def case_input(case, kind):
    # the tree, its contents, the piece length, the options and the change of the payload are functions of (salt, index): gen_case
    inp = {"kind": "e2e", "creator": kind, "salt": case["salt"], "index": case["i"], "piece_length": case["pl"],
           "tree": trees.tree_summary(case["tree"]), "empty_dirs": ["/".join(d) for d in case["empty_dirs"]],
           "options": case["opts"], "creators_run": case["kinds"], "cli_versions": case["cli_versions"],
           "case": f"e2e:{case['salt']}:{case['i']}:{kind}", "ast_changed": case.get("ast_changed", [])}
    if case["i"] >= SCALE0:     # a payload at scale (gen_scale_case); how this creator was run on it
        inp["scale"] = scale.summary(case["pl"], case["tree"])["files"]
        inp.update(case.get("routes", {}).get(kind.split(" vs ")[0], {}))      # of a pair (C10): the route of the first one
    if case.get("links"):       # symbolic links of the payload: {path of the link: text of the link}; "tree" shows them as files
        inp["symlinks"] = case["links"]
    if case.get("change"):
        inp.update(reassemble="changed", change=case["change"], tree_at_construction=trees.tree_summary(case["tree_at_construction"]))
    return inp


# ------------------------------------------------------------------------------ C02 on one metafile
def _leaves_strict(info, problems):
    """file-tree leaves in the order of the decoded dictionary: (components, length, pieces root | None);
       a leaf is a dictionary whose only key is the empty string"""
    out = []

    def rec(tree, rel):
        if not isinstance(tree, dict):
            problems.append(f"file tree node {'/'.join(rel)} is not a dictionary")
            return
        for k, v in tree.items():
            name = k.decode("utf-8", "surrogateescape")
            if isinstance(v, dict) and b"" in v:
                leaf = v[b""]
                if set(v) != {b""}:
                    problems.append(f"file tree node {'/'.join(rel + (name,))} mixes a leaf with other entries")
                if not isinstance(leaf, dict) or not isinstance(leaf.get(b"length"), int):
                    problems.append(f"file tree leaf {'/'.join(rel + (name,))} has no integer length")
                    continue
                extra = set(leaf) - {b"length", b"pieces root"}
                if extra:
                    problems.append(f"file tree leaf {'/'.join(rel + (name,))} has unexpected keys {sorted(extra)}")
                out.append((rel + (name,), leaf[b"length"], leaf.get(b"pieces root")))
            else:
                rec(v, rel + (name,))
    ft = info.get(b"file tree")
    if not isinstance(ft, dict):
        problems.append("info has no file tree")
        return out
    rec(ft, ())
    return out


def check_c02(meta, case):
    """problems of one decoded v2 / hybrid metafile against the content on disk (C02)"""
    problems = []
    info, pl = meta.get(b"info", {}), case["pl"]
    if info.get(b"piece length") != pl:
        problems.append(f"piece length {info.get(b'piece length')} != {pl}")
    if info.get(b"meta version") != 2:
        problems.append(f"meta version {info.get(b'meta version')}")
    leaves = _leaves_strict(info, problems)
    name = os.path.basename(case["root"])
    if info.get(b"name") != name.encode():
        problems.append(f"name {info.get(b'name')} != {name}")
    if case["single"]:
        want = [((name,), os.path.getsize(case["root"]))]
        files = [((name,), case["root"])]
    else:
        want = [(comps, os.path.getsize(p)) for comps, p in case["disk"]]
        files = case["disk"]
    got = [(c, n) for c, n, _ in leaves]
    if sorted(got) != sorted(want):
        missing = sorted(set(want) - set(got))[:4]
        extra = sorted(set(got) - set(want))[:4]
        problems.append(f"file tree does not mirror the disk: missing {missing} unexpected {extra}"
                        + (" (duplicates)" if len(got) != len(set(got)) else ""))
    roots = {c: r for c, _, r in leaves}
    expected_layers = {}
    # the reference values of a file are computed once per built case: every metafile of the case is judged after the last
    # creator ran, against the same files on disk (at scale a tree is hashed once for all the creators that ran on it)
    ref = case.setdefault("_ref", {})
    for comps, p in files:
        if p not in ref:
            data = oracle.read(p)
            top = layer = None
            if data:
                lv = oracle.leaves(data)
                top, bottom = oracle.root_topdown(lv), oracle.root_bottomup(lv)
                if top != bottom:
                    raise AssertionError("reference formulations disagree")
                if len(data) > pl:
                    layer = oracle.piece_layer(data, pl)
                    if oracle.root_from_layer(layer, pl) != top:
                        raise AssertionError("reference: root recomputed from the layer differs")
                    layer = b"".join(layer)
            ref[p] = (len(data), top, layer)
        size, top, layer = ref[p]
        r = roots.get(comps)
        if not size:
            if r is not None:
                problems.append(f"empty file {'/'.join(comps)} carries a pieces root")
            continue
        if r != top:
            problems.append(f"pieces root of {'/'.join(comps)} ({size} bytes) is "
                            f"{r.hex() if isinstance(r, bytes) else r}, BEP 52 root is {top.hex()}")
        if layer is not None:
            expected_layers[top] = layer
    layers = meta.get(b"piece layers")
    if not isinstance(layers, dict):
        problems.append("no top-level piece layers dictionary")
    else:
        for r in sorted(set(expected_layers) - set(layers)):
            problems.append(f"piece layers: no entry for the file with root {r.hex()[:16]} (larger than the piece length)")
        for r in sorted(set(layers) - set(expected_layers)):
            problems.append(f"piece layers: entry {r.hex()[:16] if isinstance(r, bytes) else r} belongs to no file larger "
                            f"than the piece length")
        for r, v in expected_layers.items():
            if r in layers and layers[r] != v:
                problems.append(f"piece layers[{r.hex()[:16]}]: {len(layers[r]) // 32} hashes recorded "
                                f"({len(layers[r])} bytes), expected {len(v) // 32}; content "
                                + ("differs" if len(layers[r]) == len(v) else "has a different length"))
    return problems


# ------------------------------------------------------------------------------ C03 on one metafile
def check_c03(meta, case):
    """problems of one decoded hybrid metafile: v1 view vs v2 view vs disk (C03)"""
    problems = []
    info, pl, root = meta.get(b"info", {}), case["pl"], case["root"]
    if info.get(b"piece length") != pl:
        problems.append(f"piece length {info.get(b'piece length')} != {pl}")
    if info.get(b"meta version") != 2 or b"file tree" not in info or b"pieces" not in info:
        problems.append("not a hybrid metafile (meta version 2 + file tree + pieces expected)")
        return problems
    leaves = [(c, n) for c, n, _ in _leaves_strict(info, problems)]
    # files are read once per built case and the reference hashing of one listed stream is computed once (every metafile of a case
    # is judged after the last creator ran, against the same files on disk; most of them list the same stream)
    ref = case.setdefault("_ref_v1", {})

    def read(p):
        if ("file", p) not in ref:
            ref[("file", p)] = oracle.read(p)
        return ref[("file", p)]
    if case["single"]:
        data = read(root)
        if b"files" in info:
            problems.append("single-file hybrid has a files list")
        if info.get(b"length") != len(data):
            problems.append(f"single-file hybrid: length {info.get(b'length')} != size {len(data)}")
        if leaves != [((os.path.basename(root),), len(data))]:
            problems.append(f"single-file hybrid: file tree {leaves} does not describe the file")
        exp = b"".join(oracle.v1_pieces(data, pl))
        if info[b"pieces"] != exp:
            problems.append(f"single-file hybrid: pieces ({len(info[b'pieces']) // 20}) are not the SHA-1 piece hashes of the "
                            f"file alone ({len(exp) // 20}); last piece "
                            + ("zero-extended" if info[b"pieces"] == b"".join(oracle.v1_pieces(data + bytes(-len(data) % pl), pl))
                               else "differs"))
        return problems
    if b"length" in info:
        problems.append("directory hybrid has info.length")
    files = info.get(b"files")
    if not isinstance(files, list):
        problems.append("directory hybrid has no files list")
        return problems
    stream, off, payload, listed = [], 0, [], []
    for j, f in enumerate(files):
        ln = f.get(b"length")
        if not isinstance(ln, int) or ln < 0:
            problems.append(f"files[{j}] has no length")
            continue
        if b"attr" in f and b"p" in f[b"attr"]:
            if f[b"attr"] != b"p":
                problems.append(f"padding entry {j} has attr {f[b'attr']!r}")
            if f.get(b"path") != [b".pad", str(ln).encode()]:
                problems.append(f"padding entry {j} has path {f.get(b'path')} (length {ln})")
            stream.append(ln)
            listed.append(("zeros", ln))
        else:
            comps = tuple(c.decode("utf-8", "surrogateescape") for c in f.get(b"path", []))
            if off % pl:
                problems.append(f"file {'/'.join(comps)} starts at offset {off} of the v1 stream, not on a piece boundary")
            p = os.path.join(root, *comps)
            data = read(p) if comps and os.path.isfile(p) else b""
            if len(data) != ln:
                problems.append(f"file {'/'.join(comps)} listed with length {ln}, on disk {len(data)}")
            stream.append((data, ln))
            listed.append((comps, ln))
            payload.append((comps, ln))
        off += ln
    if payload != leaves:
        problems.append(f"non-padding entries of info.files differ from the file-tree leaves (order or lengths): "
                        f"files {payload[:5]} tree {leaves[:5]}")
    key = ("stream", tuple(listed))
    if key not in ref:
        # the listed stream: the bytes of every listed file (cut / zero-extended to its listed length), padding entries as zeros
        def part(x):
            if isinstance(x, int):
                return bytes(x)
            data, ln = x
            return data if len(data) == ln else data[:ln] + bytes(max(0, ln - len(data)))
        stream = b"".join(part(x) for x in stream)
        ref[key] = (b"".join(oracle.v1_pieces(stream, pl)), len(stream))
    exp, total = ref[key]
    if info[b"pieces"] != exp:
        problems.append(f"pieces ({len(info[b'pieces']) // 20} hashes) are not the SHA-1 piece hashes of the listed stream "
                        f"({len(exp) // 20} pieces, {total} bytes)")
    return problems


# ------------------------------------------------------------------------------ C10 on a pair of metafiles
def check_c10_pair(a, b):
    problems = []
    if a.get(b"info") != b.get(b"info"):
        ia, ib = a.get(b"info", {}), b.get(b"info", {})
        keys = sorted(k for k in set(ia) | set(ib) if ia.get(k) != ib.get(k))
        problems.append(f"info dictionaries differ at keys {[k.decode('utf-8', 'replace') for k in keys]}")
    if a.get(b"piece layers") != b.get(b"piece layers"):
        la, lb = a.get(b"piece layers") or {}, b.get(b"piece layers") or {}
        problems.append(f"piece layers differ: {len(la)} vs {len(lb)} entries, "
                        f"{sum(1 for k in set(la) & set(lb) if la[k] != lb[k])} common roots with different layers")
    return problems


# ------------------------------------------------------------------------------ replay
def replay_phase_of(pid, key):
    """position of a counted case in run() of C02 / C03 / C10: 0 small functions, 1 hashers on one file, 2 creators end to
       end, 3 unit correspondence of the creators model"""
    if not isinstance(key, tuple) or not key:
        return None
    if key[0] == "merkle_root":
        return 0
    if key[0] == "e2e":
        return 2
    if key[0] == "flt" or (key[0] == "unit" and len(key) == 7):
        return 3
    if key[0] == "unit":
        return 1
    return None


def _replay_unit(tag, prop, inp, with_model):
    """one file of the recorded size (contents a function of salt, B, pl, size) through every v2-capable hasher of core.REPO,
       with the recorded block size: judged against the reference (failure) or field by field against the extracted models
       and Spec/Bep52.v against the reference (correspondence)"""
    b, pl, size = inp["B"], inp["piece_length"], inp["size"]
    payload = case_data(inp["salt"], b, pl, size)
    print(f"{tag} one file of {size} bytes, piece length {pl}, block size {b}"
          + (" (torrentfile.hasher.BLOCK_SIZE patched)" if inp.get("patched_constant") else ""))
    with core.Scratch("vreplay_") as tmp, block_size(b):
        path = os.path.join(tmp, "file.bin")
        with open(path, "wb") as fd:
            fd.write(payload)
        try:
            res = real_all(path, pl)
        except Exception as e:  # noqa
            print(f"{tag} VIOLATION hasher-raised: {type(e).__name__}: {e}")
            return 1
        probs = oracle_problems(prop, res, payload, pl)
    for kind, h, exp, obs in probs:
        print(f"{tag} VIOLATION {kind} {HASHER_NAMES.get(h, h)}: expected {_short(exp)} observed {_short(obs)}")
    if not probs:
        print(f"{tag} judge: the hashers agree with " + ("each other" if prop == "C10" else "the reference oracle") + " on this file")
    rc = 1 if probs else 0
    if not with_model:
        return rc
    k = (pl // b).bit_length() - 1
    outs = modelrun.run("v2all", [(str(b), str(pl), payload.hex())])
    spec = modelrun.run("bep52", [(str(b), str(k), payload.hex())])
    if not outs or not spec or outs[0].startswith("ERROR") or spec[0].startswith("ERROR"):
        print(f"{tag} cannot evaluate: the extracted driver of area v2 gave no answer (./check --setup)")
        return rc or 2
    model = parse_v2all(outs[0])
    n = 0
    for h in HASHERS:
        if res[h] is None:
            continue
        for f in FIELDS[prop]:
            if f in model[h] and model[h][f] != res[h].get(f):
                n += 1
                print(f"{tag} DISAGREE Model/HasherV2.v vs hasher.py: {HASHER_NAMES[h]}.{f}: model {_short(model[h][f])} "
                      f"implementation {_short(res[h].get(f))}")
    if size:
        sp = parse_bep52(spec[0])
        with block_size(b):
            gap = -size % pl
            if prop in ("C02", "C10") and (sp["root"] != oracle.pieces_root(payload)
                                           or sp["layer"] != b"".join(oracle.piece_layer(payload, pl))):
                n += 1
                print(f"{tag} DISAGREE Spec/Bep52.v bep52_root / bep52_piece_layer vs reference oracle")
            if prop in ("C03", "C10") and (sp["padded"] != oracle.v1_pieces(payload + bytes(gap), pl)
                                           or sp["plain"] != oracle.v1_pieces(payload, pl) or sp["pad"] != (gap or None)):
                n += 1
                print(f"{tag} DISAGREE Spec/Bep52.v v1_inputs_padded / pad_file_length vs reference oracle")
    print(f"{tag} models vs implementation on the fields {', '.join(FIELDS[prop])}: "
          + ("agree" if not n else f"{n} field(s) DISAGREE"))
    return 1 if (n or rc) else 0


def _replay_e2e(tag, prop, inp):
    """content tree number `index` of the run with the recorded salt (tree, contents, piece length, options are functions of
       the two), the creators and command lines the run used on it, judged again"""
    kinds = inp.get("creators_run") or list(E2E_KINDS[prop])
    cli = tuple(inp["cli_versions"]) if "cli_versions" in inp else (E2E_CLI[prop] if inp["index"] % 3 == 2 else ())
    if inp["index"] >= SCALE0:
        print(f"{tag} a payload at scale (tree number {inp['index'] - SCALE0} of harness/props/v2_common.gen_scale_case): contents, "
              "piece length, options and the route of every creator (progress mode, spelling of --piece-length) are functions of "
              "the recorded salt and number")
    with core.Scratch("vreplay_") as tmp:
        os.environ["HOME"] = tmp
        case = build_case(tmp, inp["salt"], inp["index"], kinds, cli)
        shown = case["changed"] if inp.get("reassemble") == "changed" and case.get("changed") else case
        summary = trees.tree_summary(shown["tree"])
        if summary != inp.get("tree") or case["pl"] != inp.get("piece_length") or case["opts"] != inp.get("options"):
            return c01.cannot("e2e", f"the generator no longer yields the recorded tree: {summary} vs {inp.get('tree')}")
        if case.get("links"):
            print(f"{tag} symbolic links inside the payload (link: text of the link; shown as files in the tree): {case['links']}")
        print(f"{tag} tree {trees.tree_summary(case['tree'])}, empty directories {inp.get('empty_dirs')}, piece length {case['pl']}, "
              f"options {case['opts']}; creators {list(case['metas'])}"
              + (f"; routes {case['routes']}" if case.get("routes") else ""))
        if case.get("changed"):
            print(f"{tag} a copy of it changed between construction and the second assemble() ({case['changed']['change']}) to "
                  f"{trees.tree_summary(case['changed']['tree'])}; creators {list(case['changed']['metas'])}")
        reports = judge_e2e(prop, case)
    for kind, i2, exp, obs in reports:
        print(f"{tag} VIOLATION {kind} ({i2['creator']}): {obs}")
    if not reports:
        print(f"{tag} judge: " + {"C02": "file tree, pieces roots and piece layers equal reference BEP 52 hashing of the tree on disk",
                                   "C03": "the v1 view and the v2 view of every hybrid metafile describe the tree on disk",
                                   "C10": "the creators wrote identical info dictionaries and piece layers"}[prop])
    return 1 if reports else 0


def _replay_small(tag, inp):
    core.use_repo_in_process()
    if inp.get("kind") == "merkle_root" and "hashes_hex" in inp:
        from torrentfile.hasher import merkle_root
        l = _unlist(inp["hashes_hex"])
        try:
            got = _b(merkle_root(list(l)))
        except Exception as e:  # noqa
            print(f"{tag} DISAGREE merkle_root raised {type(e).__name__}: {e}")
            return 1
        outs = modelrun.run("merkle_root", [(inp["hashes_hex"],)])
        if not outs:
            print(f"{tag} cannot evaluate: the extracted driver of area v2 gave no answer (./check --setup)")
            return 2
        same = _unhex(outs[0]) == got
        print(f"{tag} merkle_root on {len(l)} hashes: model {outs[0][:64]} implementation {_short(got)}: "
              + ("agree" if same else "DISAGREE"))
        return 0 if same else 1
    if inp.get("kind") == "next_power_2" or ("value" in inp and "blocks" not in inp):
        from torrentfile.utils import next_power_2
        n = int(inp["value"])
        outs = modelrun.run("np2", [(str(n),)])
        if not outs:
            print(f"{tag} cannot evaluate: the extracted driver of area v2 gave no answer (./check --setup)")
            return 2
        got = next_power_2(n)
        print(f"{tag} next_power_2({n}): model {outs[0]} implementation {got}: " + ("agree" if int(outs[0]) == got else "DISAGREE"))
        return 0 if int(outs[0]) == got else 1
    return c01.cannot("disagreement of a small function", "the list of hashes was not recorded")


def replay_case(ctx, data, prop):
    """rebuilds the recorded case of C02 / C03 / C10, runs the hashers / creators of core.REPO, the judge and (for a
       correspondence case) the extracted models again; 1 violated, 0 holds, 2 cannot rebuild"""
    from props import c17
    tag = f"[{prop} replay]"
    kind = str(data.get("kind"))
    inp = data.get("input") if isinstance(data.get("input"), dict) else {}
    print(f"{tag} kind={kind} implementation under test: {core.REPO}")
    core.use_repo_in_process()
    rcs, again, pins = [], [], None

    def later(type_, name, i, phase, index, key):
        nonlocal pins
        again.append({"type": type_, "name": name, "case": i.get("case"), "phase": phase, "index": index, "expect_key": key})
        if "ast_changed" in i:
            pins = {"pinned_ast_changed": i["ast_changed"]}

    def unit_key(i):
        return ["unit", i["B"], i["piece_length"], i["size"]]

    if data.get("finding") or data.get("reproducer"):
        rcs.append(c17.replay_finding(prop, data))
    elif kind == "proof-or-correspondence-broken" or "what" in data:
        dis = data.get("disagreements") or ([data] if "what" in data else [])
        for d in dis[:5]:
            di = d.get("input") if isinstance(d.get("input"), dict) else {}
            what = str(d.get("what", ""))
            if what.startswith("Model/Creators.v"):
                rcs.append(c01.replay_creators_item(ctx, d, tag))
                if rcs[-1] == 0 and c01.creators_target(d, 3):
                    again.append(c01.creators_target(d, 3))
            elif "no `padding` parameter" in what:
                ok = has_padding_parameter()
                print(f"{tag} HasherHybrid / FileHasher " + ("take" if ok else "DO NOT take") + " the `padding` parameter of the model")
                rcs.append(0 if ok else 1)
            elif what.startswith(("Model/HasherV2.v merkle_root", "Model/HasherV2.v next_power_2")):
                rcs.append(_replay_small(tag, di))
                if rcs[-1] == 0 and "case" in di:
                    later("disagreement", what, di, 0, None, None)
            elif what.startswith(("Model/HasherV2.v vs hasher.py", "Spec/Bep52.v")) and di.get("kind") == "unit":
                rcs.append(_replay_unit(tag, prop, di, with_model=True))
                if rcs[-1] == 0 and "case" in di:
                    later("disagreement", what, di, 1, None, unit_key(di))
            else:
                rcs.append(c01.cannot("disagreement " + repr(what), "unknown correspondence"))
        if data.get("broken"):
            rcs += c01.replay_broken(ctx, prop, data, "props.v2_common")
        if not dis and not data.get("broken"):
            print(f"{tag} the file records neither a disagreement nor a broken obligation: nothing to replay")
            rcs.append(2)
    elif inp.get("kind") == "unit" and all(k in inp for k in ("B", "piece_length", "size", "salt")):
        rcs.append(_replay_unit(tag, prop, inp, with_model=False))
        if rcs[-1] == 0 and "case" in inp:
            later("failure", kind, inp, 1, None, unit_key(inp))
    elif inp.get("kind") == "e2e" and "salt" in inp and "index" in inp:
        rcs.append(_replay_e2e(tag, prop, inp))
        if rcs[-1] == 0 and "case" in inp:
            later("failure", kind, inp, 2, inp["index"], None)
    else:
        rcs.append(c01.cannot(kind, "unknown kind"))
    if again and 1 not in rcs:
        rcs.append(c01.history(prop, data, again, "props.v2_common", pins))
    return c01.verdict(tag, rcs)


def flavour(label):
    """'hybrid' | 'v2': which class-based creator a metafile of this label has to agree with (C10)"""
    b = base_kind(label)
    return "hybrid" if b.startswith("hybrid") or b.endswith("version 3") else "v2"


# ------------------------------------------------------------------------------ end-to-end driver
E2E_KINDS = {"C02": ("v2-class", "v2-asm", "hybrid-class", "hybrid-asm"),
             "C03": ("hybrid-class", "hybrid-asm"),
             "C10": ("v2-class", "v2-asm", "hybrid-class", "hybrid-asm")}
E2E_CLI = {"C02": (2, 3, "2-align", "3-align"), "C03": (3, "3-align", "3-config"),
           "C10": (2, 3, "2-align", "3-align", "2-config", "3-config")}


def cli_case(i):
    """which trees also go through the command line: a third of them, and the single files 6, 18, 30, ..."""
    return i % 3 == 2 or i % 12 == 6
CATEGORIES = {
    "C02": [("pieces root of", "v2-pieces-root"), ("empty file", "v2-empty-file-carries-root"),
            ("piece layers", "v2-piece-layers"), ("no top-level piece layers", "v2-piece-layers"),
            ("file tree", "v2-file-tree")],
    "C03": [("single-file hybrid", "hybrid-single-file"), ("non-padding entries", "hybrid-files-vs-file-tree"),
            ("file ", "hybrid-file-placement"), ("padding entry", "hybrid-padding-entry"), ("pieces (", "hybrid-pieces")],
}


def _categorise(prop, problems):
    groups = {}
    for p in problems:
        kind = next((k for prefix, k in CATEGORIES[prop] if p.startswith(prefix)), prop.lower() + "-metafile")
        groups.setdefault(kind, []).append(p)
    return groups


def judge_e2e(prop, case):
    """what the end-to-end search reports for one built case: [(failure kind, input, expected, observed)]"""
    out = []
    for kind, meta in case["metas"].items():
        inp = case_input(case, kind)
        if isinstance(meta, BaseException):
            out.append(("create-raised", inp, "a metafile", f"{type(meta).__name__}: {meta}"))
            continue
        if prop == "C02":
            problems = check_c02(meta, case)
        elif prop == "C03":
            problems = check_c03(meta, case)
        else:
            problems = []
        for kind_, ps in _categorise(prop, problems).items() if problems else ():
            out.append((kind_, inp, prop + " (reference hashing of the tree as it is on disk)", ps[:6]))
    if prop == "C10":
        # every metafile written for this state of the payload (plain, align option, re-assembled, command line) against the
        # class-based creator of its flavour
        for x, a in case["metas"].items():
            y = flavour(x) + "-class"
            b = case["metas"].get(y)
            if x != y and isinstance(a, dict) and isinstance(b, dict):
                ps = check_c10_pair(a, b)
                if ps:
                    out.append(("creators-differ-" + flavour(x) + ("-cli" if "cli" in x else ""),
                                case_input(case, f"{x} vs {y}"), "identical info dictionaries and piece layers", ps))
    if case.get("changed"):
        out += judge_e2e(prop, case["changed"])
    return out


def e2e(ctx, prop):
    """the creators of this property on generated content trees, judged against the reference oracle / each other"""
    n = 24 if ctx.tier == "quick" else 1200
    if ctx.tier == "quick" and any(k.startswith("torrent.py") for k in ctx.extra.get("ast_changed_since_model", [])):
        n *= 3
    salt = ctx.rng.getrandbits(48)
    core.use_repo_in_process()
    with core.Scratch("v" + prop.lower() + "e_") as tmp:
        os.environ["HOME"] = tmp
        # the small trees, then the payloads at scale (piece lengths 2 .. 32 MiB): every creator and every command line of the
        # property on each of them, same judge
        for i in list(range(n)) + [trees.AIMED0 + j for j in range(trees.N_AIMED)] + [SCALE0 + j for j in scale_indices(ctx.tier)]:
            cli = E2E_CLI[prop] if (i >= trees.AIMED0 or cli_case(i)) else ()
            case = build_case(tmp, salt, i, E2E_KINDS[prop], cli)
            states = [case] + ([case["changed"]] if case["changed"] else [])
            for cs in states:
                cs["ast_changed"] = ctx.extra.get("ast_changed_since_model", [])
            at_scale = ["scale: "] if i >= SCALE0 else []
            for c in sorted(case["classes"]):          # classes are counted once per content tree; those of a tree at scale
                c = c if c.startswith("scale: ") or not at_scale else "scale: " + c       # do not count for the small ones
                ctx.classes[c] = ctx.classes.get(c, 0) + 1
            for c in sorted(case["changed"]["classes"]) if case["changed"] else ():
                c = "after the payload changed: " + c
                c = "scale: " + c if at_scale else c
                ctx.classes[c] = ctx.classes.get(c, 0) + 1
            for cs in states:
                for kind in cs["metas"]:
                    inp = case_input(cs, kind)
                    classes = ["creator: " + kind]
                    if at_scale and "progress" in inp:
                        classes = ["scale: creator: " + kind, f"scale: route {'command line' if 'cli' in kind else 'library'} "
                                   f"progress {inp['progress']}"]
                        if "piece_length_argument" in inp:
                            classes.append("scale: --piece-length given as " +
                                           ("the exponent" if int(inp["piece_length_argument"]) < 64 else "bytes"))
                    ctx.case(key=("e2e", i, kind, cs["pl"], tuple(sorted(inp["tree"].items()))), classes=classes,
                             nontrivial=bool(cs["classes"]), sample=inp if i == 1 and kind == E2E_KINDS[prop][0] else None)
            for kind_, inp, exp, obs in judge_e2e(prop, case):
                ctx.fail(kind_, inp, exp, obs)
            shutil.rmtree(os.path.join(tmp, f"c{i}"), ignore_errors=True)
