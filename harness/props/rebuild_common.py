"""
Shared code of the rebuild properties C13, C14 and C19.

Two halves:

* executed as a script (`python rebuild_common.py --runner`) it is the RUNNER: a fresh interpreter that imports
  torrentfile from PYTHONPATH, patches `os.listdir` to a controlled order, records the callback invocations of the
  Assembler and -- through `sys.addaudithook` -- every filesystem-mutating event while a rebuild is running (and
  refuses mutations outside the sandbox root of the job, so that a broken tool cannot damage the machine).  Jobs
  arrive as JSON lines on stdin, one JSON reply line per job leaves on the original stdout.

* imported by harness/props/c13.py, c14.py, c19.py it provides: the runner client, recursive snapshots, the generator
  of payload trees / metafiles / scattered search directories with decoys, the reference judgement of a destination,
  and the correspondences between the extracted Coq models (area "rebuild") and the real code.
"""
import os
import sys
import json
import stat
import random
import shutil
import hashlib
import threading
import subprocess


# ============================================================================================ the runner
O_MUT = os.O_WRONLY | os.O_RDWR | os.O_APPEND | os.O_CREAT | os.O_TRUNC
# event -> indices of the arguments that name a path which is created / changed / removed
MUTATING = {
    "os.mkdir": (0,), "os.rmdir": (0,), "os.remove": (0,), "os.rename": (0, 1), "os.link": (1,), "os.symlink": (1,),
    "os.truncate": (0,), "os.chmod": (0,), "os.chown": (0,), "os.utime": (0,), "os.setxattr": (0,),
    "os.removexattr": (0,), "os.mkfifo": (0,), "os.mknod": (0,),
    "shutil.copyfile": (1,), "shutil.copymode": (1,), "shutil.copystat": (1,), "shutil.copytree": (1,),
    "shutil.move": (0, 1), "shutil.rmtree": (0,), "shutil.chown": (0,), "shutil.make_archive": (0,),
    "tempfile.mkstemp": (0,), "tempfile.mkdtemp": (0,),
}


def _under(p, root):
    return p == root or p.startswith(root.rstrip(os.sep) + os.sep)


def runner_main():
    proto = os.fdopen(os.dup(1), "w", encoding="utf-8")
    devnull = os.open(os.devnull, os.O_WRONLY)
    os.dup2(devnull, 1)
    os.dup2(devnull, 2)
    sys.stdout = open(os.devnull, "w")
    sys.stderr = sys.stdout

    real_listdir = os.listdir
    state = {"order": "sorted", "events": None, "sandbox": None, "records": None}

    def listdir(path="."):
        names = real_listdir(path)
        if state["order"] == "sorted":
            return sorted(names)
        if state["order"] == "reversed":
            return sorted(names, reverse=True)
        return names

    def hook(event, args):
        if state["events"] is None:
            return
        if event == "open":
            if len(args) < 3 or not isinstance(args[2], int) or not args[2] & O_MUT:
                return
            targets = [args[0]]
        else:
            idx = MUTATING.get(event)
            if idx is None:
                return
            targets = [args[i] for i in idx if i < len(args)]
        for t in targets:
            if isinstance(t, int) or t is None:
                state["events"].append([event, f"<fd {t}>", False])
                continue
            try:
                p = os.path.realpath(os.path.abspath(os.fsdecode(t)))
            except Exception:  # noqa
                p = repr(t)
            blocked = state["sandbox"] is not None and not _under(p, state["sandbox"])
            state["events"].append([event, p, blocked])
            if blocked:
                raise PermissionError(f"verification sandbox: refused {event} on {p}")

    import torrentfile  # noqa  (from PYTHONPATH)
    from torrentfile import rebuild as rb
    from torrentfile.cli import execute
    os.listdir = listdir
    sys.addaudithook(hook)
    orig_cb = rb.Assembler._callback

    def cb(self, filename, dest, num_pieces):
        if state["records"] is not None:
            state["records"].append([str(filename), os.path.abspath(str(dest))])
        return orig_cb(self, filename, dest, num_pieces)
    rb.Assembler._callback = cb

    home = os.getcwd()
    for line in sys.stdin:
        line = line.strip()
        if not line:
            continue
        job = json.loads(line)
        reply = {"id": job.get("id"), "counter": None, "error": None, "impl": os.path.dirname(torrentfile.__file__)}
        state["order"] = job.get("order", "sorted")
        state["sandbox"] = os.path.realpath(job["sandbox"]) if job.get("sandbox") else None
        state["records"] = []
        try:
            if job.get("cwd"):
                os.chdir(job["cwd"])
            state["events"] = []
            try:
                if job["mode"] == "cli":
                    reply["counter"] = execute(["rebuild", "-m", *job["metafiles"], "-c", *job["search"],
                                                "-d", job["dest"]])
                else:
                    reply["counter"] = rb.Assembler(job["metafiles"], job["search"], job["dest"]).assemble_torrents()
            finally:
                events, state["events"] = state["events"], None
        except BaseException as e:  # noqa  the reply carries it
            reply["error"] = f"{type(e).__name__}: {str(e)[:300]}"
        finally:
            os.chdir(home)
        if not isinstance(reply["counter"], int):
            reply["counter"] = None if reply["counter"] is None else repr(reply["counter"])[:80]
        reply["records"] = state["records"]
        reply["events"] = events
        state["records"] = None
        proto.write(json.dumps(reply) + "\n")
        proto.flush()


if __name__ == "__main__":
    runner_main()
    sys.exit(0)

# ============================================================================================ harness side
import core      # noqa: E402
import trees     # noqa: E402
import modelrun  # noqa: E402
from ref import oracle  # noqa: E402

modelrun.register("rebuild", "map_pieces", "match_v1", "copypath", "safe_comp", "check_parts", "resolve", "checked_target",
                  "extract", "matchv2", "safe_b", "utf8")

TRUSTED_BASE = [
    "Coq 8.16.1 kernel; theorems closed under the global context; SHA-1 is an arbitrary function H1 in every theorem",
    "hand-written models Model/Rebuild.v, Model/RebuildMeta.v, Model/CopyPath.v, Model/PathSafe.v tied to rebuild.py / "
    "utils.copypath by differential execution (extracted OCaml vs the real methods on the same inputs); Model/Bencode.v "
    "pyloads stands for pyben.load (tied to pyben in C06); SHA-256 is an arbitrary function H256 in every theorem",
    "extraction: ExtrOcamlBasic, ExtrOcamlString; OCaml SHA-1 (ocaml/sha.ml, self-tested) and the glue of "
    "ocaml/areas/rebuild.ml (builds path nodes from ranges as PathNode(start, stop, **current) does) for the correspondence only",
    "reference verifier / encoder harness/ref/oracle.py (shares no code with /repo or pyben) judges the destination",
    "os.listdir/open/read/shutil.copy/os.mkdir behave as specified on regular files; no concurrent writer; no symbolic links",
]


JOB_TIMEOUT = int(os.environ.get("VERIF_JOB_TIMEOUT", "90"))      # seconds one rebuild job may take (normal: below 10 s)


class Runner:
    """client of one runner process"""

    def __init__(self, home):
        self.lock = threading.Lock()
        self.home = home
        self.p = None

    def start(self):
        self.p = subprocess.Popen([core.PY, os.path.abspath(__file__), "--runner"], cwd=self.home,
                                  env=core.impl_env({"HOME": self.home}), stdin=subprocess.PIPE,
                                  stdout=subprocess.PIPE, stderr=subprocess.DEVNULL, text=True, encoding="utf-8")

    def run(self, job):
        with self.lock:
            if self.p is None or self.p.poll() is not None:
                self.start()
            timed_out = False
            try:
                self.p.stdin.write(json.dumps(job) + "\n")
                self.p.stdin.flush()
                # the implementation under test may hang on an input (a seeded change did: a rebuild that never ended on a
                # candidate at scale): wait for the answer with a limit, then kill the runner and report the job as not answered
                import select
                ready, _, _ = select.select([self.p.stdout], [], [], JOB_TIMEOUT)
                if ready:
                    line = self.p.stdout.readline()
                else:
                    timed_out, line = True, ""
                    self.p.kill()
                    self.p.wait()
            except (BrokenPipeError, OSError):
                line = ""
            if not line:
                rc = self.p.poll()
                self.p = None
                return {"id": job.get("id"), "runner_died": True, "timed_out": timed_out, "rc": "no answer within %d s" % JOB_TIMEOUT
                        if timed_out else rc, "counter": None,
                        "error": "the rebuild did not return within %d s" % JOB_TIMEOUT if timed_out else "runner process died",
                        "records": [], "events": []}
            return json.loads(line)

    def close(self):
        if self.p is not None and self.p.poll() is None:
            try:
                self.p.stdin.close()
                self.p.wait(timeout=20)
            except Exception:  # noqa
                self.p.kill()
        self.p = None


def run_cli_process(job, home):
    """the real command line in a fresh interpreter without any patch: python -m torrentfile rebuild ..."""
    p = subprocess.run([core.PY, "-m", "torrentfile", "rebuild", "-m", *job["metafiles"], "-c", *job["search"],
                        "-d", job["dest"]], cwd=job.get("cwd") or home, env=core.impl_env({"HOME": home}),
                       capture_output=True, text=True, timeout=300)
    return {"id": job.get("id"), "counter": None, "records": None, "events": None,
            "error": None if p.returncode == 0 else f"exit status {p.returncode}: {p.stderr[-300:]}"}


# ----------------------------------------------------------------------------------- text that can be written
def safe_text(s):
    """`s` free of lone surrogates: a file name that is not valid UTF-8 (os.fsdecode gives it lone surrogates) is shown with
       \\xNN for every undecodable byte, so that replay and evidence files (written as UTF-8) can carry it"""
    try:
        s.encode("utf-8")
        return s
    except UnicodeEncodeError:
        return s.encode("utf-8", "surrogateescape").decode("utf-8", "backslashreplace")


def sanitize(x):
    if isinstance(x, str):
        return safe_text(x)
    if isinstance(x, dict):
        return {sanitize(k): sanitize(v) for k, v in x.items()}
    if isinstance(x, (list, tuple)):
        return [sanitize(v) for v in x]
    if isinstance(x, set):
        return sorted(sanitize(v) for v in x)
    return x


# --------------------------------------------------------------------------------------------- snapshots
def sha256_file(p):
    h = hashlib.sha256()
    with open(p, "rb") as fd:
        while True:
            b = fd.read(1 << 20)
            if not b:
                break
            h.update(b)
    return h.hexdigest()


def snapshot(root):
    """{relative path: (kind, size, sha256 | link target, mode, mtime_ns)}; '.' is the root itself; {} if absent"""
    out = {}

    def rec(p, rel):
        st = os.lstat(p)
        mode = stat.S_IMODE(st.st_mode)
        if stat.S_ISDIR(st.st_mode):
            out[rel] = ("d", 0, "", mode, st.st_mtime_ns)
            for n in sorted(os.listdir(p)):
                rec(os.path.join(p, n), n if rel == "." else rel + "/" + n)
        elif stat.S_ISREG(st.st_mode):
            out[rel] = ("f", st.st_size, sha256_file(p), mode, st.st_mtime_ns)
        elif stat.S_ISLNK(st.st_mode):
            out[rel] = ("l", 0, os.readlink(p), mode, st.st_mtime_ns)
        else:
            out[rel] = ("o", 0, "", mode, st.st_mtime_ns)
    if os.path.lexists(root):
        rec(root, ".")
    return out


def snap_diff(before, after, dir_mtime=True):
    """list of human-readable differences; dir_mtime=False ignores the mtime of directories"""
    out = []
    for k in sorted(set(before) | set(after)):
        a, b = before.get(k), after.get(k)
        if a == b:
            continue
        if a is None:
            out.append(f"created {b[0]} {safe_text(k)}")
        elif b is None:
            out.append(f"removed {a[0]} {safe_text(k)}")
        else:
            if a[0] == "d" and b[0] == "d" and not dir_mtime and a[:4] == b[:4]:
                continue
            what = [n for n, x, y in zip(("kind", "size", "content", "mode", "mtime"), a, b) if x != y]
            out.append(f"changed {safe_text(k)}: {','.join(what)}")
    return out


# --------------------------------------------------------------------------------------------- generation
DIRWORDS = ["x", "sub dir", "k.d", "é", "A", "z9", "_", "日本", "a-b", "w"]
ALL_KINDS = ["v1", "v2-class", "v2-asm", "hybrid-class", "hybrid-asm", "ref1", "ref2", "ref3"]
PATTERN = bytes((i * 7 + 3) % 255 + 1 for i in range(251))      # no zero byte


def wholly_different(data, salt=0):
    """same length, EVERY byte differs"""
    n = len(data)
    if n == 0:
        return b""
    pat = (PATTERN[salt % 251:] + PATTERN[:salt % 251]) * (n // 251 + 1)
    return (int.from_bytes(data, "big") ^ int.from_bytes(pat[:n], "big")).to_bytes(n, "big")


# legal names that CONTAIN two or more consecutive dots: ordinary names, they lead nowhere (only the element ".." does)
DOTTED_FILES = ["wait....bin", "v..2", "..x", "x..", "a..b.bin"]
DOTTED_DIRS = ["disc..2", "..d", "d..", "cd..1"]


def has_dotted(c):
    return ".." in c and c != ".."


def dotted_tree(rng, pl):
    """aimed: a torrent whose file and directory names contain consecutive dots (every name is an ordinary name)"""
    small = lambda: rng.choice([1, 7, 100, 300, pl // 2, pl + 17])       # noqa: E731
    d = "10_" + rng.choice(DOTTED_DIRS)
    tree = {("00_intro.bin",): rng.randbytes(rng.choice([pl, 100, 2 * pl])),
            ("05_" + rng.choice(DOTTED_FILES),): rng.randbytes(rng.choice([2 * pl + 17, small()])),
            (d, "side a.bin"): rng.randbytes(rng.choice([3 * pl, pl, small()])),
            (d, "side b" + rng.choice(["", "..", "..bin"])): rng.randbytes(rng.choice([4000, small()]))}
    if rng.random() < 0.4:
        tree[(d, rng.choice(DOTTED_DIRS), "deep" + rng.choice(["", "...x"]))] = rng.randbytes(small())
    return tree


NAMESAKE_FILE = "payload: a top-level file named like the torrent, beside other files and directories"
NAMESAKE_DIR = "payload: a sub-directory named like the torrent"
NAMESAKE_DEEP = "payload: a file named like the torrent inside a sub-directory"


def namesake_tree(rng, pl, name, variant=None):
    """
    aimed: a DIRECTORY payload `name/` one of whose entries carries the torrent's own name.
      'file': the top-level file name/name next to other top-level files and sub-directories (BEP 52: the file tree has the key
              `name` with a leaf below it, exactly as the single-file form has -- but it is not the ONLY key, so the torrent is a
              directory and the file belongs at dest/name/name);
      'dir':  the sub-directory name/name/ (with files, one of which may again be called `name`), next to top-level files.
    Always two or more files: the one-leaf tree {name: leaf} IS the single-file form (inherent to BEP 52) and stays out.
    returns (tree, classes)
    """
    variant = variant or rng.choice(["file", "file", "file", "dir"])
    small = lambda: rng.choice([1, 7, 100, 300, pl // 2, pl - 1])       # noqa: E731
    big = lambda: rng.choice([pl, pl + 5, 2 * pl, 2 * pl + 17, 3 * pl - 1])       # noqa: E731
    tree, cl = {}, {"structured layout"}
    if variant == "file":
        cl.add(NAMESAKE_FILE)
        tree[(name,)] = rng.randbytes(rng.choice([big(), big(), small()]))
        # sorts before and after the namesake under byte order ("tor0" < "tor0.nfo"; "other.bin" < "tor0" < "zz")
        for c in rng.sample([("other.bin",), ("00_first",), ("zz_last.bin",), (name + ".nfo",), ("A.txt",)], rng.choice([1, 2, 3])):
            tree[c] = rng.randbytes(rng.choice([small(), big(), 0] if len(tree) > 1 else [small(), big()]))
        d = rng.choice(["sub", "00_d", "zz dir", name + ".d"])
        tree[(d, rng.choice(["x.bin", "k"]))] = rng.randbytes(rng.choice([small(), big()]))
        if rng.random() < 0.4:
            tree[(d, "deeper", "y")] = rng.randbytes(small())
        if rng.random() < 0.35:
            tree[(d, name)] = rng.randbytes(rng.choice([3 * pl + 1, 55]))     # the name once more, one level down (other size)
            cl.add(NAMESAKE_DEEP)
    else:
        cl.add(NAMESAKE_DIR)
        tree[(name, rng.choice(["inner.bin", "00_i"]))] = rng.randbytes(rng.choice([big(), small()]))
        if rng.random() < 0.5:
            tree[(name, name)] = rng.randbytes(rng.choice([big(), small()]))   # name/name/name
            cl.add(NAMESAKE_DEEP)
        if rng.random() < 0.3:
            tree[(name, name + "2", "z")] = rng.randbytes(small())
        for c in rng.sample([("other.bin",), ("00_first",), ("zz_last.bin",), (name + ".nfo",)], rng.choice([1, 2])):
            tree[c] = rng.randbytes(rng.choice([small(), big()]))
        if rng.random() < 0.4:
            tree[("sub", "x.bin")] = rng.randbytes(small())
    cl.add("nested")
    return tree, cl


# ---------------------------------------------------------------------- names that are NOT the recorded name
# C14: everything written is a copy of a search-directory file WITH THE RECORDED NAME.  A lookup that compares names after a
# lossy step (dropping what does not decode, normalising, folding case, stripping) takes these files for candidates.
NFD_E = "e\u0301"             # 'e' + combining acute: the decomposed form (NFD); the pools' "\u00e9" is the composed form (NFC)
OTHERNAME_FILES = ["data.bin", "\u00e9.bin", "\u00c5ngstr\u00f6m.dat", "Readme.TXT", NFD_E + "t" + NFD_E + ".txt", "x y", "track01.flac",
                   "\ufb01le.dat"]


def name_variants(name):
    """{kind: another legal file name that a careless comparison takes for `name`}.  Names that are not valid UTF-8 are given
       as os.fsdecode gives them (one lone surrogate per undecodable byte)."""
    import unicodedata
    esc = lambda b: bytes([b]).decode("utf-8", "surrogateescape")       # noqa: E731
    stem, dot, ext = name.rpartition(".")
    out = {
        "an undecodable byte before the extension": (stem + esc(0xFF) + dot + ext) if dot and stem else name + esc(0xFF),
        "an undecodable byte first": esc(0xFE) + name,
        "an undecodable byte last": name + esc(0x80),
        "a truncated multi-byte sequence inside": name[:len(name) // 2] + esc(0xC3) + name[len(name) // 2:],
        "an over-long encoding of '.' inside": name[:1] + esc(0xC0) + esc(0xAE) + name[1:],
        "white space appended": name + " ",
    }
    for form in ("NFD", "NFC", "NFKC"):
        v = unicodedata.normalize(form, name)
        if v != name:
            out["other Unicode normalisation (" + form + " of the recorded name)"] = v
            break
    for how, v in (("swapped", name.swapcase()), ("upper", name.upper()), ("lower", name.lower())):
        if v != name and len(v) == len(name):
            out["other letter case (" + how + ")"] = v
            break
    return {k: v for k, v in out.items() if v != name and "/" not in v and "\0" not in v}


def othername_tree(rng, pl):
    """aimed: a directory torrent whose file names have other spellings (composed / decomposed characters, letters, an extension)"""
    names = rng.sample(OTHERNAME_FILES, rng.choice([2, 3, 3, 4]))
    d = rng.choice([None, None, "00_d", "Disc \u00c9"])
    sizes = [rng.choice([100, 300, pl, pl + 5, 2 * pl + 17, pl - 1, 5000]) for _ in names]
    return {((d, nm) if d and i % 2 else (nm,)): rng.randbytes(n) for i, (nm, n) in enumerate(zip(names, sizes))}


# ---------------------------------------------------------------------- v1 `pieces` strings that are valid UTF-8
# pyben returns a byte string that happens to be valid UTF-8 as str.  About one SHA-1 digest in 10**5 is valid UTF-8 with a
# multi-byte character: then the TEXT is shorter than the 20 bytes, and code that counts or slices the text goes wrong.
def utf8_tail(base, rng, width=8):
    """`width` bytes t such that sha1(<what `base` has hashed> + t) is valid UTF-8 and holds a multi-byte character"""
    n0 = rng.randrange(1 << 31)
    for n in range(40_000_000):
        t = b"%0*x" % (width, (n0 + n) & 0xFFFFFFFF)
        h = base.copy()
        h.update(t)
        dg = h.digest()
        if dg.isascii():
            continue
        try:
            dg.decode("utf-8")
        except UnicodeDecodeError:
            continue
        return t[:width]
    raise RuntimeError("no digest that is valid UTF-8 found")


UTF8_PIECES = "v1 `pieces` string is valid UTF-8 with multi-byte characters (pyben hands it over as text)"


def utf8_pieces_tree(rng, pl):
    """sizes and names of a small v1 payload (1-4 pieces) for retune_utf8: (single, tree)"""
    small = lambda: rng.choice([9, 100, 300, 5000, pl // 2])       # noqa: E731
    shape = rng.choice(["single", "single", "boundary", "straddle", "many", "two-piece files"])
    if shape == "single":
        return True, {(): rng.randbytes(rng.choice([100, 5000, pl, pl + 300, 2 * pl, 2 * pl + 4000]))}
    if shape == "boundary":          # the first file ends exactly on a piece boundary
        sizes = [rng.choice([pl, pl, 2 * pl]), rng.choice([2700, small(), pl])] + ([small()] if rng.random() < 0.4 else [])
    elif shape == "straddle":        # pieces straddle files
        sizes = [pl + 5, 300, pl - 100] if rng.random() < 0.5 else [small(), pl, small()]
    elif shape == "many":            # one piece holds every file
        sizes = [small() for _ in range(rng.randrange(2, 5))]
        while sum(sizes) > pl:
            sizes[sizes.index(max(sizes))] = 100
    else:
        sizes = [pl + rng.choice([9, 700, pl - 1]), rng.choice([pl + 9, 2 * pl])]
    names = rng.choice([["00_disc.bin", "10_notes/readme.txt", "20_x y"], ["00_a", "01_b.bin", "02_é"],
                        ["00_d/00_a", "00_d/01_b", "50_e/00_c"], ["00_a", "50_d/00_b", "50_d/01_c", "50_d/02_d"]])
    while len(names) < len(sizes):
        names = names + [f"9{len(names)}_more"]
    return False, {tuple(nm.split("/")): rng.randbytes(n) for nm, n in zip(names, sizes)}


def retune_utf8(t, workdir, rng):
    """t: a v1 torrent already through make_metafile.  Rewrites the last 8 bytes of every piece of the payload stream (in the
       file order the METAFILE records) so that every SHA-1 digest is valid UTF-8 with a multi-byte character, and makes the
       metafile again from the new payload.  The recorded `pieces` string is then checked by the reference decoder."""
    pl = t["pl"]
    ents = [e for e in t["layout"] if e["rel"] is not None]
    if t["views"] != ["v1"] or t["has_pad"]:
        raise RuntimeError("retune_utf8: a plain v1 metafile is needed")
    stream = bytearray(b"".join(e["data"] for e in ents))
    if 0 < len(stream) % pl < 8 or len(stream) < 8:
        raise RuntimeError("retune_utf8: last piece shorter than 8 bytes")
    for p0 in range(0, len(stream), pl):
        end = min(p0 + pl, len(stream))
        stream[end - 8:end] = utf8_tail(hashlib.sha1(bytes(stream[p0:end - 8])), rng)
    off = 0
    for e in ents:
        comps = e["rel"][1:] if not t["single_by_metafile"] else ()
        t["tree"][comps] = bytes(stream[off:off + e["length"]])
        off += e["length"]
    shutil.rmtree(os.path.join(workdir, "orig", t["name"]), ignore_errors=True)
    if os.path.isfile(os.path.join(workdir, "orig", t["name"])):
        os.remove(os.path.join(workdir, "orig", t["name"]))
    make_metafile(t, workdir)
    pcs = t["meta"][b"info"][b"pieces"]
    if len(pcs.decode("utf-8")) >= len(pcs) or len(pcs) != 20 * ((len(stream) + pl - 1) // pl):       # raises if not valid UTF-8
        raise RuntimeError("retune_utf8: the recorded pieces string is not the aimed one")
    return len(pcs) // 20


def gen_payload(rng, pl, idx):
    """returns (name, single, tree {comps: bytes}, classes)"""
    r = rng.random()
    dots = ".." if rng.random() < 0.12 else ""          # the torrent's own name may contain consecutive dots as well
    if r < 0.14:
        n = rng.choice([1, 100, pl - 1, pl, pl + 1, 2 * pl, 2 * pl + 5, 3 * pl - 1])
        return f"single{dots}{idx}.bin", True, {(): rng.randbytes(n)}, {"single file"}
    if r < 0.22:
        name = rng.choice([f"tor{dots}{idx}", f"proj{dots}{idx}", f"album {idx}.d"])
        tree, classes = namesake_tree(rng, pl, name)
        return name, False, tree, classes
    if r < 0.50:
        tree, classes = trees.gen_tree(rng, pl, max_files=6, single_prob=0.0, max_total=8)
        return f"tor{dots}{idx}", False, tree, classes
    if r < 0.56:
        return f"tor{dots}{idx}", False, dotted_tree(rng, pl), {"nested", "structured layout"}
    # structured layouts: names keep the listed order under every sort the creators use
    small = lambda: rng.choice([1, 7, 100, 300, pl // 2])       # noqa: E731
    templates = [
        [pl, small(), small()],                                   # file end = piece end, then short files
        [pl, pl, pl],                                             # one piece per file
        [0, pl + 5, 0, 2 * pl - 5, 0],                            # empty first / middle / last
        [small(), small(), small(), small(), small()],            # one piece straddles many files
        [2 * pl, 0, pl, 3],                                       # empty file exactly on a boundary
        [pl - 1, 1, pl + 1, pl - 1],
        [3, 0, 0, pl],
        [rng.choice(trees.boundary_sizes(pl)[:14]) for _ in range(rng.randrange(2, 6))],
        [0, 0, small()],
        [small(), 0],
    ]
    if rng.random() < 0.15:
        # the same FILE NAME in two directories; the later files start on a piece boundary and consist of whole pieces
        k = rng.choice([1, 2, 3])
        tree = {("00_disc1", "track.bin"): rng.randbytes(k * pl), ("00_disc1", "cover.jpg"): rng.randbytes(pl),
                ("50_disc2", "cover.jpg"): rng.randbytes(pl), ("50_disc2", "track.bin"): rng.randbytes(rng.choice([pl, 2 * pl, 777]))}
        return f"tor{dots}{idx}", False, tree, {"nested", "structured layout", "same file name in two directories, whole-piece files"}
    sizes = rng.choice(templates)
    grouping = rng.choice(["flat", "one-dir", "two-dirs", "deep"])
    d0, d1, sub = rng.choice(["00_d", "00_d", "00_disc..1"]), rng.choice(["50_e", "50_e", "50_e.."]), rng.choice(["00_sub", "00_sub", "00_..sub"])
    tree = {}
    for i, s in enumerate(sizes):
        fname = f"{i:02d}_" + rng.choice(["a", "b.bin", "é", "x y", "k", "wait....bin", "v..2", NFD_E + ".bin"])
        if grouping == "flat":
            comps = (fname,)
        elif grouping == "one-dir":
            comps = (d0, fname)
        elif grouping == "two-dirs":
            comps = ((d0, fname) if i < (len(sizes) + 1) // 2 else (d1, fname))
        else:
            comps = (d0, sub, fname) if i % 2 == 0 else (d0, fname)
        tree[comps] = rng.randbytes(s)
    classes = {"nested" if grouping != "flat" else "flat", "structured layout"}
    return f"tor{dots}{idx}", False, tree, classes


# ------------------------------------------------------------------------------------------ payloads at SCALE
# Rebuild reads candidates piece by piece, hashes whole candidates (v2 route) and copies them: code that maps, buffers or copies
# through fixed windows (1 MiB and its neighbours 4 / 8 MiB) goes wrong only for candidates of about a MiB and more, and for
# piece lengths above the window.  The small streams use 16 / 32 KiB pieces and files of a few pieces; these use piece lengths
# of 256 KiB .. 4 MiB (two shapes at 8 / 16 MiB; thorough tier: more of those through harness/scale.py) and files of 1 .. 9 MiB.  End-to-end searches only
# (reference oracle, hashlib): nothing of this goes to the extracted models.
KIB, MIB = 1 << 10, 1 << 20
# (piece length, file sizes in listing order, what it is aimed at)
SCALE_TEMPLATES = [
    (256 * KIB, [MIB + 5000, 300, 1234, 512 * KIB, 70000], "file just above 1 MiB whose tail shares a 256 KiB piece with small files"),
    (2 * MIB, [3 * MIB + 100, 70000], "2 MiB pieces: file of a piece and a half, more than 1 MiB of the last piece unused"),
    (MIB, [MIB, 100, 2 * MIB + 1, 7], "1 MiB pieces: a file of exactly 1 MiB, a file of 2 MiB + 1, small files between and after"),
    (2 * MIB, [MIB + 5000, 300, 2000], "2 MiB pieces: the whole torrent is one piece, first file just above 1 MiB"),
    (512 * KIB, [100, 2 * MIB - 1, 1, MIB + 1], "small file first; sizes one byte either side of a multiple of 1 MiB"),
    (2 * MIB, [3 * MIB, 2 * MIB + MIB // 2], "file sizes multiples of 1 MiB / 512 KiB but not of the 2 MiB piece length"),
    (4 * MIB, [5 * MIB, 1000, 4 * MIB + 1], "4 MiB pieces: tails of 1 MiB and of one byte, a small file between"),
    (4 * MIB, [4 * MIB + MIB // 2 + 7], "single file, 4 MiB pieces, last piece just above 512 KiB"),
    (2 * MIB, [MIB + 512 * KIB + 7], "single file above 1 MiB that is shorter than the 2 MiB piece"),
    (256 * KIB, [70000, 4 * MIB + 123, 0, 5], "256 KiB pieces: big file after a small one, an empty file and a tiny file in its last piece"),
    (MIB, [6 * MIB - 1, 1, MIB + 1], "1 MiB pieces: file one byte short of 6 MiB completed by a one-byte file"),
    (4 * MIB, [2 * MIB + 5, 3 * MIB + 300, 1], "4 MiB pieces: two files above 1 MiB inside the first piece"),
    (8 * MIB, [9 * MIB + 5, 100], "8 MiB pieces: candidate ends 1 MiB into its second piece, a small file after it"),
    (16 * MIB, [300, 9 * MIB + 1, 7], "16 MiB pieces: the whole torrent is one piece, a candidate above 8 MiB between small files"),
]
SCALE_LAYOUTS = [
    ["00_big.bin", "01_note.txt", "02_readme.md", "03_exact.bin", "04_tail.bin"],
    ["00_a/00_big.bin", "00_a/01_note.txt", "00_a/02_readme.md", "50_b/00_exact.bin", "50_b/01_tail.bin"],
    ["00_a/00_s/00_big.bin", "00_a/00_s/01_note.txt", "00_a/10_readme.md", "50_b/00_exact.bin", "50_b/00_t/tail.bin"],
    ["00_cd..1/00_big.bin", "00_cd..1/01_x y", "10_é.md", "50_b/note.txt", "50_b/tail.bin"],
]
SCALE_KINDS_V1 = ["v1", "ref1"]
SCALE_KINDS_V2 = ["ref2", "hybrid-class", "ref3", "v2-class", "hybrid-asm", "v2-asm"]


def scale_plan(thorough, profile="scale"):
    """the case profiles of a scale stream: every template once through a v1 metafile and once through a v2 / hybrid metafile
       (creators and reference encoder in turn); thorough: every template with every kind, random shapes, harness/scale.py shapes"""
    out = []
    n = len(SCALE_TEMPLATES)
    if not thorough:
        for j in range(n):
            out.append(f"{profile}:{j}:{SCALE_KINDS_V1[j % 2]}")
            out.append(f"{profile}:{j}:{SCALE_KINDS_V2[j % 6]}")
        out += [f"{profile}:r:"] * 4
        return out
    for j in range(n):
        for k in ALL_KINDS:
            out.append(f"{profile}:{j}:{k}")
    out += [f"{profile}:r:"] * 60
    import scale
    out += [f"{profile}:g{j}:" for j in range(len(scale.templates()))] + [f"{profile}:g{len(scale.templates()) + j}:" for j in range(6)]
    return out


def scale_payload(rng, variant, idx):
    """variant '<template index>|r|g<i>' ':' '<kind>|': returns (pl, name, single, tree, classes, kind or None)"""
    which, _, kind = variant.partition(":")
    cl = {"payload at scale"}
    if which.startswith("g"):
        import scale
        pl, tree, scl = scale.gen(rng, int(which[1:]), single_ok=True, max_total=24 * MIB)
        single = list(tree) == [()]
        cl |= scl
        return pl, f"big{idx}" + (".bin" if single else ""), single, tree, cl, kind or None
    if which == "r" or which == "":
        pl = rng.choice([256 * KIB, 512 * KIB, MIB, 2 * MIB, 2 * MIB, 4 * MIB])
        sizes, total = [], 0
        for _ in range(rng.randrange(1, 5)):
            if rng.random() < 0.3:
                n = rng.choice([0, 1, 300, 70000, pl // 2, pl - 1])
            else:
                n = rng.randrange(0, 6) * MIB + rng.choice([0, 1, 123, 5000, MIB // 2, MIB - 1, rng.randrange(MIB)])
            if total + n > 14 * MIB:
                n = rng.choice([1000, MIB + 1])
            sizes.append(n)
            total += n
        if not any(n > MIB for n in sizes):
            sizes[rng.randrange(len(sizes))] = MIB + rng.choice([1, 5000, MIB // 2, pl + 9])
        if len(sizes) > 1:
            rng.shuffle(sizes)
        aim = "random sizes k MiB + r"
    else:
        pl, sizes, aim = SCALE_TEMPLATES[int(which)]
    cl.add("scale: " + aim)
    if len(sizes) == 1:
        return pl, f"big{idx}.bin", True, {(): rng.randbytes(sizes[0])}, cl | {"single file"}, kind or None
    names = rng.choice(SCALE_LAYOUTS)
    tree = {tuple(nm.split("/")): rng.randbytes(n) for nm, n in zip(names, sizes)}
    cl |= {"structured layout", "nested" if any(len(c) > 1 for c in tree) else "flat"}
    return pl, f"big{idx}", False, tree, cl, kind or None


def scale_classes(t):
    """what the metafile's own layout exhibits at scale (computed from the layout the reference reads, not from the template)"""
    cl = set()
    pl = t["pl"]
    ents = [e for e in t["layout"] if e["rel"] is not None]
    route = t["views"][0]
    cl.add("scale: piece length %s, %s route" % ("%d KiB" % (pl // KIB) if pl < MIB else "%d MiB" % (pl // MIB), route))
    for e in ents:
        n = e["length"]
        if n >= MIB:
            cl.add("scale: candidate of exactly k MiB" if n % MIB == 0 else "scale: candidate above 1 MiB, size not a multiple of 1 MiB")
        if n > 4 * MIB:
            cl.add("scale: candidate above 4 MiB")
        if n > 8 * MIB:
            cl.add("scale: candidate above 8 MiB")
        if route == "v2" and n > MIB:
            cl.add("scale: v2 route, candidate above 1 MiB " + ("shorter than a piece" if n <= pl else "of several pieces") +
                   (", piece length above 1 MiB" if pl > MIB else ""))
    if route == "v1":
        for i, e in enumerate(ents):
            if e["length"] < MIB:
                continue
            end = e["offset"] + e["length"]
            p0 = (end - 1) // pl * pl                 # the piece that holds the last byte of e
            inside = [x for x in ents if x is not e and x["length"] and x["offset"] >= p0 and x["offset"] + x["length"] <= p0 + pl]
            if end % pl and e["offset"] < p0 and any(x["offset"] >= end for x in inside):
                cl.add("scale: v1 piece holds the tail of a candidate of 1 MiB or more and whole later files")
            if e["offset"] % pl and any(x["offset"] < e["offset"] for x in ents if x["length"] and x["offset"] >= e["offset"] // pl * pl):
                cl.add("scale: v1 piece holds whole earlier files and the head of a candidate of 1 MiB or more")
            if e["offset"] >= p0 and end <= p0 + pl:
                cl.add("scale: v1 candidate of 1 MiB or more wholly inside one piece")
    return cl


def make_metafile(t, workdir):
    """t: torrent dict with name/single/tree/pl/kind; writes payload (tool kinds) and metafile; fills raw/meta"""
    name, tree, pl, kind = t["name"], t["tree"], t["pl"], t["kind"]
    mf = os.path.join(workdir, "meta", name + ".torrent")
    os.makedirs(os.path.dirname(mf), exist_ok=True)
    if kind.startswith("ref"):
        version = int(kind[3])
        order = t.get("order") or sorted(tree)
        files = [(c, tree[c]) for c in order]
        raw = oracle.ref_metafile(name, files, pl, version, single=t["single"])
        with open(mf, "wb") as fd:
            fd.write(raw)
    else:
        root = os.path.join(workdir, "orig", name)
        trees.write_tree(root, tree)
        raw = trees.create(kind, root, mf, pl)
    t["metafile"] = mf
    t["raw"] = raw
    try:
        t["meta"] = oracle.bdecode_strict(raw)
    except Exception:  # noqa  canonical form is C06's business
        import pyben
        t["meta"] = _to_bytes(pyben.loads(raw))
    t["layout"] = layout_of(t)
    return t


def _to_bytes(v):
    if isinstance(v, str):
        return v.encode()
    if isinstance(v, (bytes, bytearray)):
        return bytes(v)
    if isinstance(v, list):
        return [_to_bytes(x) for x in v]
    if isinstance(v, dict):
        return {_to_bytes(k): _to_bytes(x) for k, x in v.items()}
    return v


def layout_of(t):
    """
    What the METAFILE says, read by the reference: list of dicts
      rel (tuple under the destination, starting with the name) | None for a padding entry, length,
      data (the payload bytes the generator put there), offset (v1 stream offset or None).
    A v2 / hybrid tree with the single leaf `name` is a single file torrent: the file is dest/name.
    """
    info = t["meta"][b"info"]
    name = info[b"name"].decode("utf-8", "surrogateescape")
    tree = t["tree"]
    out = []
    if b"meta version" in info:
        files = oracle.v2_layout(info)
        single = len(files) == 1 and files[0][0] == (name,)
        for comps, length, _root in files:
            rel = (name,) if single else (name,) + comps
            # (a directory payload whose ONLY file is called like the torrent has this very tree: judged as the single file it denotes)
            out.append({"rel": rel, "length": length, "data": tree.get(() if single and () in tree else comps), "offset": None})
        t["single_by_metafile"] = single
    else:
        off = 0
        single = b"files" not in info
        for comps, length in oracle.v1_layout(info):
            if comps is None:
                out.append({"rel": None, "length": length, "data": None, "offset": off})
            else:
                out.append({"rel": (name,) + comps, "length": length, "data": tree.get(comps), "offset": off})
            off += length
        t["single_by_metafile"] = single
    t["has_pad"] = any(e["rel"] is None for e in out) or \
        any(f.get(b"attr") for f in info.get(b"files", []) if isinstance(f, dict))
    t["views"] = ["v1"] if b"meta version" not in info else (["v2", "v1"] if b"pieces" in info else ["v2"])
    return out


class Placer:
    """files scattered over the search roots; a path is (root index, comp, ..., name)"""

    def __init__(self):
        self.files = {}
        self.role = {}
        self.dirs = set()

    def free(self, p):
        if p in self.files or p in self.dirs:
            return False
        return not any(p[:i] in self.files for i in range(2, len(p)))

    def add(self, p, data, role):
        self.files[p] = data
        self.role[p] = role
        for i in range(2, len(p)):
            self.dirs.add(p[:i])

    def place(self, rng, root, band, name, data, role, min_depth=0):
        for attempt in range(60):
            depth = rng.choice([0, 1, 1, 2, 3]) if min_depth == 0 else rng.choice([1, 1, 2, 3])
            comps = []
            if depth:
                comps = [(band or rng.choice("2468")) + "_" + rng.choice(DIRWORDS)] + \
                    [rng.choice(DIRWORDS) for _ in range(depth - 1)]
            if attempt > 20:
                comps.append(f"u{attempt}")
            p = (root, *comps, name)
            if self.free(p) and (len(p) > 2 or band is None):
                self.add(p, data, role)
                return p
        raise RuntimeError("no free place")

    def enumeration(self, nroots, order, file_roots=()):
        """paths in the order _index_contents meets them (listdir sorted / reversed)"""
        children = {}
        for p in list(self.files) + list(self.dirs):
            children.setdefault(p[:-1], set()).add(p[-1])
        out = []

        def rec(d):
            for n in sorted(children.get(d, ()), reverse=(order == "reversed")):
                p = d + (n,)
                if p in self.files:
                    out.append(p)
                else:
                    rec(p)
        for r in range(nroots):
            rec((r,))
        return out


def gen_case(case_seed, profile, workdir, force_mode=None):
    """
    profile: 'c13' (no partially matching decoy, no aligned v1), 'd27' (one partially matching decoy enumerated
    first), 'd28' (aligned v1 metafile), 'c14' (everything, plus -- done by c14.py -- a pre-populated destination),
    'samename' (one file name in two directories, whole-piece files), 'dotted' (file / directory names containing consecutive
    dots, single metafiles and batches), 'boundary' (v1: a file of exactly k pieces followed by a file whose wholly different
    same-size decoy is enumerated before the intact copy), 'boundary-only' (the same, the decoy is the ONLY candidate of that
    file: C14 only, C13's premise does not hold), 'absent' (v1: a piece spans two files, the later file's NAME exists nowhere
    in the search directories, the earlier file has a wholly different same-size decoy enumerated first: C14 only), 'namesake'
    (directory torrents -- v2, hybrid, v1; creators and reference encoder; single metafiles and batches -- with a top-level FILE
    named like the torrent beside other files and directories, or a SUB-DIRECTORY named like the torrent),
    'scale:<shape>:<kind>' / 'scale14:...' (the first torrent is a payload at SCALE: piece lengths 256 KiB .. 16 MiB and
    candidates of 1 .. 9 MiB -- shapes g<i>: harness/scale.py -- aimed at 1 / 4 / 8 MiB windows; see scale_payload / scale_plan; decoys as
    in c13 / c14), 'utf8pieces' (the first torrent is a plain v1 torrent of 1-4 pieces whose recorded `pieces` string is valid
    UTF-8 with multi-byte characters -- pyben hands it over as text; intact copies and decoys as in c13), 'othername' (C14 only:
    for some files the RIGHT bytes lie in the search directories only under ANOTHER name -- the recorded name with bytes that
    are not valid UTF-8 put in, in the other Unicode normalisation, in another letter case, with white space appended -- while the
    recorded name belongs to a wholly different same-size decoy or to no file; a small share of the c14 / scale14 cases as well),
    'metafolder' (C14 only: the metafile lies in a folder NEXT TO ITS OWN PAYLOAD, the usual `create` layout, and that folder --
    or the metafile in it -- is what -m names; for some files the search directories given with -c hold only decoys or nothing).
    'paths' (scatterings and decoys as in c13; two or three SIBLING search directories one of whose names is a string prefix of
    another -- 'parts' / 'parts2', 'disk1' / 'disk10', given in any order, mostly with every intact copy in a directory whose
    name extends a sibling's -- and the destination spelled as on a command line: spell_destination), 'inplace' (C13 only:
    gen_inplace_case -- the destination equals or contains a search directory and some files are already at their final place).
    Everything is derived from case_seed.  Files are written under workdir.
    force_mode='cli-proc': the unpatched command line in a fresh interpreter (enumeration order of the filesystem).
    """
    rng = random.Random(case_seed)
    case = {"seed": case_seed, "profile": profile, "workdir": workdir, "classes": set(), "force_mode": force_mode}
    cl = case["classes"]
    # 'scale:<shape>:<kind>' / 'scale14:<shape>:<kind>': the first torrent of the case is a payload at scale (scale_payload);
    # decoys as in profile c13 / c14; the full text stays the case's profile (a replay regenerates the case from it)
    if profile == "inplace":
        return gen_inplace_case(case_seed, workdir, force_mode)
    profile, _, variant = profile.partition(":")
    at_scale = profile in ("scale", "scale14")
    boundary = profile in ("boundary", "boundary-only")
    nb = 1 if rng.random() < 0.72 or profile in ("d27", "d28") else rng.choice([2, 2, 3])
    if profile in ("dotted", "namesake") and rng.random() < 0.5:
        nb = rng.choice([2, 2, 3])
    if nb > 1:
        cl.add(f"batch of {nb} metafiles")
    case["order"] = "sorted" if profile == "d27" else rng.choice(["sorted", "sorted", "reversed"])
    case["mode"] = "api" if rng.random() < 0.7 else "cli"
    if force_mode == "cli-proc":
        case["mode"], case["order"] = "cli-proc", "native"
    rev = case["order"] == "reversed"
    torrents = []
    for i in range(nb):
        pl = rng.choice([16384, 16384, 16384, 32768])
        if profile == "d28":
            kind = "v1-align"
        elif profile == "d27":
            kind = rng.choice(["v1", "ref1"])
        elif profile in ("c14", "scale14"):
            kind = rng.choice(ALL_KINDS + ["v1", "ref1", "v1-align"])
        else:
            kind = rng.choice(ALL_KINDS + ["v1", "ref1"])
        name, single, tree, pcl = gen_payload(rng, pl, i)
        if at_scale and i == 0:
            pl, name, single, tree, pcl, k = scale_payload(rng, variant, i)
            kind = k or kind
        if profile == "samename":
            # aimed: the same FILE NAME in two directories; the later files start on a piece boundary and are made of whole pieces
            kind = rng.choice(["v1", "ref1"])
            k = rng.choice([1, 2, 3])
            name, single = f"tor{i}", False
            tree = {("00_disc1", "cover.jpg"): rng.randbytes(pl), ("00_disc1", "track.bin"): rng.randbytes(k * pl),
                    ("50_disc2", "cover.jpg"): rng.randbytes(pl), ("50_disc2", "track.bin"): rng.randbytes(rng.choice([pl, 2 * pl, 777]))}
            pcl = {"nested", "structured layout", "same file name in two directories, whole-piece files"}
        if profile == "dotted" and (i == 0 or rng.random() < 0.5):
            name, single, tree, pcl = f"tor{rng.choice(['', '..'])}{i}", False, dotted_tree(rng, pl), {"nested", "structured layout"}
        if profile == "namesake" and (i == 0 or rng.random() < 0.5):
            # aimed: a directory torrent one of whose entries is called like the torrent; every creator and the reference encoder
            kind = rng.choice(["v2-class", "v2-asm", "hybrid-class", "hybrid-asm", "ref2", "ref3", "ref2", "ref3", "v1", "ref1"])
            name, single = rng.choice([f"tor{i}", f"proj{i}", f"proj..{i}", f"album {i}.d"]), False
            tree, pcl = namesake_tree(rng, pl, name, variant=rng.choice(["file", "file", "file", "dir"]) if i == 0 else None)
        if boundary and i == 0:
            # aimed: v1, file A of exactly k pieces, then file B (and sometimes C): B starts on a piece boundary
            kind = rng.choice(["v1", "ref1"])
            k = rng.choice([1, 1, 2, 3])
            a, b, c = rng.choice([("00_A.bin", "01_B.bin", "02_c"), ("00_d/00_a", "00_d/01_b", "50_e/00_c"), ("00_a", "50_d/00_b", "50_d/01_c")])
            name, single = f"tor{i}", False
            tree = {tuple(a.split("/")): rng.randbytes(k * pl),
                    tuple(b.split("/")): rng.randbytes(rng.choice([20000, 100, pl, pl + 1, 2 * pl + 5, 3 * pl, 1]))}
            if rng.random() < 0.5:
                tree[tuple(c.split("/"))] = rng.randbytes(rng.choice([1, 300, pl, pl + 7]))
            pcl = {"nested" if "/" in b else "flat", "structured layout", "file of exactly k pieces followed by a file with a decoy"}
        if profile == "absent" and i == 0:
            kind = rng.choice(["v1", "ref1"])
            name, single = f"tor{i}", False
            a, b, c = rng.choice([("00_a.bin", "01_b.bin", "02_c"), ("00_d/00_a", "00_d/01_b", "50_e/00_c"), ("00_a", "50_d/00_b", "50_d/01_c")])
            tree = {tuple(a.split("/")): rng.randbytes(rng.choice([10000, 100, pl - 1, 1, pl + 5])),
                    tuple(b.split("/")): rng.randbytes(rng.choice([50000, 300, pl, 2 * pl + 1]))}
            if rng.random() < 0.4:
                tree[tuple(c.split("/"))] = rng.randbytes(rng.choice([1, 300, pl + 7]))
            pcl = {"nested" if "/" in b else "flat", "structured layout"}
        if profile == "utf8pieces" and i == 0:
            kind = rng.choice(["v1", "ref1"])
            single, tree = utf8_pieces_tree(rng, pl)
            name, pcl = (f"single{i}.bin" if single else f"tor{i}"), ({"single file"} if single else {"structured layout"})
        if profile == "othername" and i == 0:
            name, single, tree, pcl = f"tor{i}", False, othername_tree(rng, pl), {"structured layout"}
        if profile == "d28" and single:
            name, single, tree = f"tor{i}", False, {("00_a",): rng.randbytes(100), ("01_b",): rng.randbytes(pl + 200),
                                                     ("02_c",): rng.randbytes(300)}
        if profile == "d27" and not any(len(d) > pl for d in tree.values()):
            k = sorted(tree)[0]
            tree[k] = rng.randbytes(2 * pl + rng.choice([0, 1, 77]))
        t = {"name": name, "single": single, "tree": tree, "pl": pl, "kind": kind}
        if kind == "ref1" and not single and rng.random() < 0.4 and not ((boundary or profile == "absent") and i == 0):
            order = sorted(tree)
            rng.shuffle(order)
            t["order"] = order
            cl.add("v1 files not in sorted order")
        make_metafile(t, workdir)
        if profile == "utf8pieces" and i == 0:
            k = retune_utf8(t, workdir, rng)
            cl.update({UTF8_PIECES, UTF8_PIECES + (": one piece" if k == 1 else ": several pieces")})
        if profile == "metafolder":
            # the usual `create` layout: <folder>/<name>.torrent next to <folder>/<name>
            trees.write_tree(os.path.join(workdir, "meta", name), tree)
        torrents.append(t)
        cl.update(pcl)
        cl.add("metafile " + kind)
        cl.update(classify_layout(t))
        if at_scale and i == 0:
            cl.update(scale_classes(t))
    case["torrents"] = torrents

    # ---- scatter: intact copies of EVERY file under its own file name, decoys, unrelated files
    nroots = rng.choice([1, 1, 2, 3])
    root_names = [f"S{r}" for r in range(nroots)]
    long_root = None
    prng = random.Random(f"paths:{case_seed}")
    if profile == "paths":
        # aimed: two or three SIBLING search directories one of whose names is a string prefix of another ('parts' / 'parts2'); in
        # most cases every intact copy lies in a directory whose name extends a sibling's; the directories given in any order
        nroots = 3 if nroots == 3 else 2
        fam = list(prng.choice(PREFIX_FAMILIES))
        root_names = [fam[0]] + prng.sample(fam[1:], nroots - 1)
        prng.shuffle(root_names)
        ext = [i for i, n in enumerate(root_names) if any(n != m and n.startswith(m) for m in root_names)]
        if prng.random() < 0.7:
            long_root = prng.choice(ext)
            cl.add("search directories: every intact copy in a directory whose name extends a sibling's name")
        cl.add("search directories: siblings, one name a string prefix of another")
        cl.add("search directories: the shorter name given " + ("first" if root_names.index(fam[0]) == 0 else "later"))
    case["root_names"] = root_names
    cl.add(f"{nroots} search root{'s' if nroots > 1 else ''}")
    pc = Placer()
    case["placer"] = pc
    case["decoys"] = []          # dicts: t (torrent index), l (layout index), kind, path
    n_samesize = n_longer = 0

    def spot(where, root):
        """(search root, band) enumerated before / after band '5' of `root` under the case's listing order"""
        if where == "before":
            return rng.randrange(0, root + 1), ("9" if rev else "1")
        return rng.randrange(root, nroots), ("1" if rev else "9")
    absent_li = before_absent_li = None
    case["carried"] = []
    wanted_names = {x["rel"][-1] for t in torrents for x in t["layout"] if x["rel"]}
    if profile == "absent":
        # the LATER file of a piece that spans two files: its name is wanted by no other entry and is found nowhere
        lay = torrents[0]["layout"]
        wanted = [x["rel"][-1] for t in torrents for x in t["layout"] if x["rel"]]
        opts = [j for j in range(1, len(lay)) if lay[j]["rel"] and lay[j]["length"] and lay[j]["offset"] % torrents[0]["pl"]
                and lay[j - 1]["rel"] and lay[j - 1]["length"] and wanted.count(lay[j]["rel"][-1]) == 1]
        if opts:
            absent_li = rng.choice(opts)
            before_absent_li = absent_li - 1
    for ti, t in enumerate(torrents):
        for li, e in enumerate(t["layout"]):
            if e["rel"] is None:
                continue
            fname, data = e["rel"][-1], e["data"]
            if ti == 0 and li == absent_li:
                e["intact_at"] = None
                case["absent_name"] = "/".join(e["rel"])
                cl.add("candidates: a file name that exists nowhere in the search directories")
                continue
            # ---- the RIGHT bytes only under ANOTHER name (C14: a written file is a copy of a file WITH THE RECORDED NAME)
            carried = len(data) > 0 and ((profile == "othername" and (not case["carried"] or rng.random() < 0.5)) or
                                         (profile in ("c14", "scale14") and rng.random() < 0.06))
            if carried:
                variants = {k: v for k, v in name_variants(fname).items() if v not in wanted_names}
                how = rng.choice(sorted(variants))
                root = rng.randrange(nroots)
                p = pc.place(rng, root, rng.choice(["5", None]), variants[how], data, "the right bytes under another name: " + how,
                             min_depth=rng.choice([0, 1]))
                e["intact_at"] = None
                case["carried"].append({"file": "/".join(e["rel"]), "other_name": variants[how], "how": how, "path": p})
                cl.add("candidates: the right bytes only under another name -- " + how)
                r = rng.random()
                if r < 0.5:
                    r2, band = spot(rng.choice(["before", "after"]), root)
                    q = pc.place(rng, r2, band, fname, wholly_different(data, rng.randrange(251)), "same-size decoy", 1)
                    case["decoys"].append({"t": ti, "l": li, "kind": "same-size", "path": q})
                    cl.add("candidates: the recorded name belongs to a wholly wrong same-size decoy, the right bytes to another name")
                elif r < 0.65:
                    q = pc.place(rng, rng.randrange(nroots), None, fname, rng.randbytes(len(data) + rng.choice([1, 40])), "different-size decoy")
                    case["decoys"].append({"t": ti, "l": li, "kind": "different-size", "path": q})
                    cl.add("candidates: the recorded name belongs to a file of another size, the right bytes to another name")
                else:
                    cl.add("candidates: no file has the recorded name, the right bytes lie under another name")
                continue
            # ---- the metafile lies next to its own payload (-m folder); the -c trees hold only decoys of this file, or nothing
            if profile == "metafolder" and (rng.random() < 0.65 or (len(data) > 0 and not case.get("outside_only"))):
                e["intact_at"] = None
                case.setdefault("outside_only", []).append("/".join(e["rel"]))
                r = rng.random()
                if r < 0.5 and len(data) > 0:
                    q = pc.place(rng, rng.randrange(nroots), rng.choice(["1", "9", None]), fname, wholly_different(data, rng.randrange(251)),
                                 "same-size decoy")
                    case["decoys"].append({"t": ti, "l": li, "kind": "same-size", "path": q})
                    cl.add("-m folder holds the payload: the -c trees hold only a wholly wrong same-size decoy of a file")
                elif r < 0.65:
                    q = pc.place(rng, rng.randrange(nroots), None, fname, rng.randbytes(len(data) + rng.choice([1, 40])), "different-size decoy")
                    case["decoys"].append({"t": ti, "l": li, "kind": "different-size", "path": q})
                    cl.add("-m folder holds the payload: the -c trees hold only a file of another size for a file")
                else:
                    cl.add("-m folder holds the payload: the -c trees hold nothing of a file")
                continue
            want_same = len(data) > 0 and rng.random() < 0.30 and n_samesize < 5
            # aimed: the file that follows a file ending exactly on a piece boundary
            aimed = bool(boundary and ti == 0 and len(data) > 0 and e["offset"] and e["offset"] % t["pl"] == 0 and
                         any(x["rel"] and x["length"] and x["offset"] + x["length"] == e["offset"] for x in t["layout"]))
            if ti == 0 and li == before_absent_li:
                aimed = True
            only_decoy = aimed and (profile == "boundary-only" or (profile == "absent" and rng.random() < 0.3)) and not case.get("only_decoy")
            want_same = want_same or aimed
            want_part = len(data) > t["pl"] and "v1" == t["views"][0] and \
                ((profile in ("c14", "scale14") and rng.random() < 0.2) or (profile == "d27" and not case.get("partial")))
            # same name, LONGER than recorded: the genuine bytes followed by junk, enumerated before the genuine file (a size
            # test that lets longer candidates through verifies every piece that ends inside the genuine bytes)
            want_longer = len(data) > 0 and profile in ("c13", "c14", "scale", "scale14") and rng.random() < (0.5 if len(data) > t["pl"] else 0.2) \
                and n_longer < 4
            banded = want_same or want_part or want_longer
            root = rng.randrange(nroots)
            if long_root is not None:
                root = long_root
            if only_decoy:
                e["intact_at"] = None
                case["only_decoy"] = "/".join(e["rel"])
                cl.add("candidates: a wholly wrong same-size decoy is the only candidate")
            else:
                p = pc.place(rng, root, "5" if banded else None, fname, data, "intact", min_depth=1 if banded else 0)
                e["intact_at"] = p
            if want_same:
                n_samesize += 1
                for where in (["before"] if aimed else rng.choice([["before"], ["after"], ["before", "after"]])):
                    r2, band = spot(where, root)
                    q = pc.place(rng, r2, band, fname, wholly_different(data, rng.randrange(251)), "same-size decoy", 1)
                    case["decoys"].append({"t": ti, "l": li, "kind": "same-size", "path": q})
            if want_longer:
                n_longer += 1
                r2, band = spot("before", root)
                junk = rng.choice([b"\x00", b"!", bytes(rng.choice([1, 7, t["pl"]])), rng.randbytes(rng.choice([3, 100, t["pl"] + 1]))])
                q = pc.place(rng, r2, band, fname, data + junk, "longer decoy (genuine bytes, then junk)", 1)
                case["decoys"].append({"t": ti, "l": li, "kind": "longer", "path": q})
            if want_part:
                # agrees with the intact file on one whole piece overlapping it, differs in every other byte
                off = e["offset"]
                pcs = list(range(off // t["pl"], (off + len(data) - 1) // t["pl"] + 1))
                k = pcs[0] if profile == "d27" else rng.choice(pcs)     # D27 shows when the FIRST piece of the file agrees
                a, b = max(off, k * t["pl"]) - off, min(off + len(data), (k + 1) * t["pl"]) - off
                bad = wholly_different(data, rng.randrange(251))
                bad = bad[:a] + data[a:b] + bad[b:]
                r2, band = spot("before" if profile == "d27" else rng.choice(["before", "after"]), root)
                q = pc.place(rng, r2, band, fname, bad, "partial decoy", 1)
                case["decoys"].append({"t": ti, "l": li, "kind": "partial", "path": q})
                case["partial"] = True
            if rng.random() < 0.35:
                n = len(data)
                m = rng.choice([n + 1, 2 * n + 3, max(n - 1, 0) if n > 1 else n + 2, 0 if n else 5])
                q = pc.place(rng, rng.randrange(nroots), rng.choice(["1", "9", None]), fname, rng.randbytes(m),
                             "different-size decoy")
                case["decoys"].append({"t": ti, "l": li, "kind": "different-size", "path": q})
    for _ in range(rng.randrange(0, 5)):
        pc.place(rng, rng.randrange(nroots), None, rng.choice(["unrelated.txt", "README", "zz", "0.nfo", "other é"]),
                 rng.randbytes(rng.choice([0, 10, 5000])), "unrelated")
    sroot = os.path.join(workdir, "search")
    case["search"] = [os.path.join(sroot, root_names[r]) for r in range(nroots)]
    for r in case["search"]:
        os.makedirs(r, exist_ok=True)
    for p, data in pc.files.items():
        fp = os.path.join(case["search"][p[0]], *p[1:])
        os.makedirs(os.path.dirname(fp), exist_ok=True)
        with open(fp, "wb") as fd:
            fd.write(data)
    # a search "directory" may be a plain file: point the search straight at the intact copy of a single file torrent
    if nb == 1 and torrents[0]["single_by_metafile"] and not case["decoys"] and profile != "metafolder" and rng.random() < 0.5:
        e = torrents[0]["layout"][0]
        at = e["intact_at"] or (case["carried"] and case["carried"][0]["path"])
        if at:
            case["search"] = [os.path.join(case["search"][at[0]], *at[1:])]
            case["search_is_file"] = True
            cl.add("search root is a file" + ("" if e["intact_at"] else " that has another name than the recorded one"))

    # ---- job
    metas = [t["metafile"] for t in torrents]
    if nb > 1 and rng.random() < 0.5:
        metas = [os.path.join(workdir, "meta")]
        cl.add("metafiles given as a directory")
    if profile == "metafolder":
        if force_mode != "cli-proc":
            case["mode"] = "cli" if rng.random() < 0.75 else "api"
        if rng.random() < 0.8:
            metas = [os.path.join(workdir, "meta")]
            cl.add("-m names the FOLDER that holds the metafile next to its own payload; payload files absent from the -c trees")
        else:
            cl.add("-m names the metafile, which lies next to its own payload; payload files absent from the -c trees")
    case["metafiles"] = metas
    case["dest"] = os.path.join(workdir, "out", "dest")
    dd = rng.random()
    if profile == "paths":
        spell_destination(case, prng, [os.path.join(sroot, n) for n in root_names])
    elif dd < 0.14:
        os.makedirs(case["dest"])
        case["dest_arg"], case["cwd"] = ".", case["dest"]
        cl.add("destination '.' (relative, one element, cwd = destination)")
    elif dd < 0.24:
        os.makedirs(case["dest"])
        case["dest_arg"], case["cwd"] = os.path.join("..", "out", "dest"), os.path.join(workdir, "meta")
        cl.add("relative destination")
    elif dd < 0.6:
        os.makedirs(case["dest"])
        case["dest_arg"], case["cwd"] = case["dest"], None
        cl.add("destination exists")
    else:
        case["dest_arg"], case["cwd"] = case["dest"], None
        cl.add("destination missing")
    cl.add("mode " + case["mode"])
    cl.add("enumeration " + case["order"])

    # ---- candidate classes, from the enumeration the tool will see
    if not case.get("search_is_file"):
        enum = pc.enumeration(nroots, case["order"])
        pos = {p: i for i, p in enumerate(enum)}
        for ti, t in enumerate(torrents):
            for li, e in enumerate(t["layout"]):
                if e["rel"] is None:
                    continue
                ds = [d for d in case["decoys"] if d["t"] == ti and d["l"] == li]
                if not ds and e.get("intact_at") is None:
                    continue
                if not ds:
                    cl.add("candidates: unique")
                for d in ds:
                    if e.get("intact_at") is None:
                        continue
                    rel = "before" if pos[d["path"]] < pos[e["intact_at"]] else "after"
                    d["enumerated"] = rel
                    if d["kind"] == "different-size":
                        cl.add("candidates: different-size decoy")
                    elif d["kind"] == "longer":
                        cl.add("candidates: longer decoy (genuine bytes then junk) " +
                               ("in the enumeration order of the filesystem" if case["order"] == "native" else rel + " the intact copy"))
                    elif case["order"] == "native":
                        cl.add(f"candidates: {d['kind']} decoy, enumeration order of the filesystem")
                    elif d["kind"] == "same-size":
                        cl.add(f"candidates: same-size wholly wrong decoy {rel} the intact copy")
                    else:
                        cl.add(f"candidates: partially matching decoy {rel} the intact copy")
    return case


PREFIX_FAMILIES = [("parts", "parts2", "parts2.old"), ("disk1", "disk10", "disk1 b"), ("S", "S.bak", "Sx"),
                   ("seed", "seed-incoming", "seed.old"), ("dl", "dl_", "dl.d")]


def spell_destination(case, prng, roots):
    """
    profile 'paths': the destination as people spell it on a command line -- './../x', '../x', './.hidden', './x/', 'x/./y', an
    absolute path with a '..' segment or a trailing separator, a sibling of the search directories whose name extends a search
    directory's name -- from a working directory that is a search directory, the parent of the search directories, the folder
    of the metafiles or the parent of everything.  case['dest'] is the directory these spellings denote (as the shell resolves them).
    """
    w, cl = case["workdir"], case["classes"]
    out = os.path.join(w, "out")
    options = [
        ("'./../../x/y' from inside a search directory", os.path.join(out, "dest"), "./../../out/dest", roots[0]),
        ("'./../x/y' from the parent of the search directories", os.path.join(out, "dest"), "./../out/dest", os.path.dirname(roots[0])),
        ("'../../x/y' from inside a search directory", os.path.join(out, "dest"), "../../out/dest", roots[-1]),
        ("'./.hidden' (a name that starts with a dot)", os.path.join(out, ".dest"), "./.dest", out),
        ("'./../.hidden' from the folder of the metafiles", os.path.join(w, ".dest"), "./../.dest", os.path.join(w, "meta")),
        ("'./x/y/' (trailing separator)", os.path.join(out, "dest"), "./out/dest/", w),
        ("'x/./y'", os.path.join(out, "dest"), "out/./dest", w),
        ("'.//x/y'", os.path.join(out, "dest"), ".//out/dest", w),
        ("absolute with a '..' segment through a search directory", os.path.join(out, "dest"), os.path.join(roots[0], "..", "..", "out", "dest"), None),
        ("absolute with a trailing separator", os.path.join(out, "dest"), os.path.join(out, "dest") + os.sep, None),
        ("a sibling of the search directories whose name extends a search directory's name, './../<name>-out' from inside that one",
         roots[0] + "-out", "./../" + os.path.basename(roots[0]) + "-out", roots[0]),
        ("a sibling of the search directories whose name extends a search directory's name, absolute", roots[0] + ".out", roots[0] + ".out", None),
    ]
    label, dest, arg, cwd = prng.choice(options)
    case["dest"], case["dest_arg"], case["cwd"] = dest, arg, cwd
    if cwd is not None or prng.random() < 0.6:
        os.makedirs(dest, exist_ok=True)
        cl.add("destination exists")
    else:
        cl.add("destination missing")
    cl.add("destination spelled " + label)
    if case.get("force_mode") != "cli-proc":
        case["mode"] = "cli" if prng.random() < 0.7 else "api"


def gen_inplace_case(case_seed, workdir, force_mode=None):
    """
    profile 'inplace' (C13 only): the destination EQUALS or CONTAINS a search directory ('-c . -d .', '-c dest/name -d dest') and
    some files of the torrent are already intact at their final place dest/name/...; the remaining files lie elsewhere in the
    search directories (under the destination, or in a second search directory).  Aimed shapes: v1 with a file in place and a
    small neighbour that shares its only / its last piece with it, the small file in place and the big one missing, three files
    in two directories; the same through v2 / hybrid metafiles of the reference encoder.  Everything must be restored.
    """
    rng = random.Random(f"inplace:{case_seed}")
    cl = set()
    case = {"seed": case_seed, "profile": "inplace", "workdir": workdir, "classes": cl, "force_mode": force_mode,
            "decoys": [], "carried": []}
    pl = rng.choice([16384, 16384, 32768])
    kind = rng.choice(["v1", "ref1", "v1", "ref1", "ref2", "ref3"])
    name = rng.choice(["tor0", "album", "proj.d"])
    shape = rng.choice(["one piece", "one piece", "big then small", "small then big", "three files"])
    if shape == "one piece":
        sizes = {("00_a.bin",): rng.choice([100, 5000, pl - 300]), ("01_b.bin",): rng.choice([1, 77, 200])}
    elif shape == "big then small":
        sizes = {("00_a.bin",): rng.choice([pl + 5, 2 * pl + 100, 2 * pl - 50, pl]), ("01_b.bin",): rng.choice([1, 77, 200])}
    elif shape == "small then big":
        sizes = {("00_a.bin",): rng.choice([1, 77, 300]), ("01_b.bin",): rng.choice([pl + 5, 2 * pl, 5000])}
    else:
        sizes = {("00_d", "00_a"): rng.choice([300, pl]), ("00_d", "01_b"): rng.choice([pl + 9, 700]), ("50_e", "00_c"): rng.choice([120, 1])}
    tree = {k: rng.randbytes(v) for k, v in sizes.items()}
    t = {"name": name, "single": False, "tree": tree, "pl": pl, "kind": kind}
    make_metafile(t, workdir)
    case["torrents"] = [t]
    cl.update({"structured layout", "metafile " + kind, "in place: payload shape " + shape})
    cl.update(classify_layout(t))
    ents = [e for e in t["layout"] if e["rel"]]
    biggest = max(range(len(ents)), key=lambda i: ents[i]["length"])
    if rng.random() < 0.6:
        placed = {biggest}
        cl.add("in place: the largest file is at its final place, its small neighbours are elsewhere")
    else:
        placed = set(rng.sample(range(len(ents)), rng.randrange(1, len(ents))))
        cl.add("in place: a random non-empty proper subset of the files is at its final place")
    arrangement = rng.choice(["the search directory is the destination", "the search directory is the destination",
                              "the search directory is the payload directory inside the destination",
                              "the destination and a second directory are searched"])
    cl.add("in place: " + arrangement)
    dest = os.path.join(workdir, "out", "dest")
    payload_dir = arrangement.startswith("the search directory is the payload")
    search = [os.path.join(dest, name) if payload_dir else dest]
    names = ["dest/" + name if payload_dir else "dest"]
    if arrangement.startswith("the destination and"):
        search.append(os.path.join(workdir, "search", "S1"))
        names.append("S1")
    pc = Placer()
    case["placer"] = pc
    for i, e in enumerate(ents):
        fname = e["rel"][-1]
        if i in placed:
            p = (0,) + tuple(e["rel"][1:] if payload_dir else e["rel"])
            pc.add(p, e["data"], "intact, at its final place")
        else:
            r = len(search) - 1
            sub = rng.choice([("_incoming",), ("other", "k.d"), ("zz",)])
            p = (r,) + sub + (fname,)
            pc.add(p, e["data"], "intact")
        e["intact_at"] = p
    for p, data in pc.files.items():
        fp = os.path.join(search[p[0]], *p[1:])
        os.makedirs(os.path.dirname(fp), exist_ok=True)
        with open(fp, "wb") as fd:
            fd.write(data)
    for d in search:
        os.makedirs(d, exist_ok=True)
    case["root_names"] = names
    case["search"] = search
    case["in_place"] = ["/".join(ents[i]["rel"]) for i in sorted(placed)]
    case["preexisting"] = sorted(k for k, v in snapshot(dest).items() if v[0] != "d")
    case["metafiles"] = [t["metafile"]]
    case["dest"] = dest
    spell = rng.choice(["'.' for both, from inside the destination", "absolute", "'.' destination, absolute search",
                        "'../dest' destination and '.' search from inside the destination", "absolute with trailing separators"])
    rel_search = ["." if s == dest else os.path.relpath(s, dest) for s in search]
    if spell.startswith("'.' for both"):
        case["dest_arg"], case["cwd"], case["search_arg"] = ".", dest, rel_search
    elif spell == "absolute":
        case["dest_arg"], case["cwd"] = dest, None
    elif spell.startswith("'.' destination"):
        case["dest_arg"], case["cwd"] = ".", dest
    elif spell.startswith("'../dest'"):
        case["dest_arg"], case["cwd"], case["search_arg"] = "../dest", dest, rel_search
    else:
        case["dest_arg"], case["cwd"], case["search_arg"] = dest + os.sep, None, [s + os.sep for s in search]
    cl.add("in place: spelled " + spell)
    case["order"] = rng.choice(["sorted", "sorted", "reversed"])
    case["mode"] = "cli" if rng.random() < 0.5 else "api"
    if force_mode == "cli-proc":
        case["mode"], case["order"] = "cli-proc", "native"
    cl.update({"mode " + case["mode"], "enumeration " + case["order"], "destination exists", f"{len(search)} search root{'s' if len(search) > 1 else ''}"})
    return case


def classify_layout(t):
    """boundary classes of Appendix B (rebuild) that the metafile's own file order exhibits"""
    cl = set()
    pl = t["pl"]
    ents = [e for e in t["layout"] if e["rel"] is not None]
    n = len(ents)
    for i, e in enumerate(ents):
        if e["length"] == 0:
            cl.add("empty file " + ("first" if i == 0 else "last" if i == n - 1 else "middle"))
        if e["offset"] is not None and e["length"] and (e["offset"] + e["length"]) % pl == 0 and i + 1 < n:
            cl.add("file end = piece end")
        if e["offset"] is None and e["length"] and e["length"] % pl == 0:
            cl.add("v2 file size = k*pl")
    dirs = {}
    for e in ents:
        dirs[e["rel"][:-1]] = dirs.get(e["rel"][:-1], 0) + 1
    if any(v >= 2 for v in dirs.values()):
        cl.add("several files per directory")
    names = [e["rel"][-1] for e in ents]
    if len(set(names)) < len(names):
        cl.add("two files of the torrent share a file name")
    if any(has_dotted(e["rel"][-1]) for e in ents if len(e["rel"]) > 1):
        cl.add("file name containing consecutive dots")
    if any(has_dotted(c) for e in ents for c in e["rel"][1:-1]):
        cl.add("directory name containing consecutive dots")
    if ents and has_dotted(ents[0]["rel"][0]):
        cl.add("torrent name containing consecutive dots")
    if t["has_pad"]:
        cl.add("v1 padding entries")
    if "v1" == t["views"][0] and n > 1:
        spans = [(e["offset"], e["offset"] + e["length"]) for e in ents]
        total = max(b for _, b in spans)
        for p0 in range(0, total, pl):
            k = sum(1 for a, b in spans if a < p0 + pl and b > p0)
            if k >= 3:
                cl.add("piece straddles >=3 files")
            elif k == 2:
                cl.add("piece straddles 2 files")
    return cl


def job_of(case, jid=0):
    return {"id": jid, "mode": case["mode"], "metafiles": case["metafiles"], "search": case.get("search_arg") or case["search"],
            "dest": case["dest_arg"], "cwd": case["cwd"], "order": case["order"], "sandbox": case["workdir"]}


def case_summary(case):
    out = _case_summary(case)
    if case.get("carried"):
        out["right_bytes_only_under_another_name"] = [{k: c[k] for k in ("file", "other_name", "how")} for c in case["carried"]]
    if case.get("outside_only"):
        out["in_the_metafile_folder_but_in_no_search_directory"] = case["outside_only"]
    if case.get("search_arg"):
        out["search_as_spelled"] = case["search_arg"]
    if case.get("in_place"):
        out["destination"] = os.path.relpath(case["dest"], case["workdir"])
        out["already_at_their_final_place"] = case["in_place"]
    return sanitize(out)           # names that are not valid UTF-8 are shown with \xNN


def _case_summary(case):
    return {"case_seed": case["seed"], "profile": case["profile"], "mode": case["mode"], "order": case["order"],
            "dest_arg": case["dest_arg"], "cwd": case["cwd"],
            "metafiles": [os.path.relpath(m, case["workdir"]) for m in case["metafiles"]],
            "search": [os.path.relpath(s, case["workdir"]) for s in case["search"]],
            "torrents": [{"name": t["name"], "kind": t["kind"], "piece_length": t["pl"],
                          "files": [["/".join(e["rel"][1:]) if e["rel"] else "<pad>", e["length"]] for e in t["layout"]][:12]}
                         for t in case["torrents"]],
            "scattered": sorted((case.get("root_names") or [f"S{i}" for i in range(9)])[p[0]] + "/" + "/".join(p[1:]) +
                                f" [{case['placer'].role[p]}, {len(d)} bytes]"
                                for p, d in case["placer"].files.items())[:40]}


# ------------------------------------------------------------------------------------ judging a destination
def agrees_on_some_piece(t, e, content):
    """necessary for `content` to have verified as file e in any piece: it equals the payload on the whole overlap
       of e with at least one piece (v1 view) / on the whole file (v2 view)"""
    data = e["data"]
    if len(content) != len(data):
        return False
    if len(data) == 0 or content == data:
        return True
    if e["offset"] is None:
        return False
    pl, off = t["pl"], e["offset"]
    for k in range(off // pl, (off + len(data) - 1) // pl + 1):
        a, b = max(off, k * pl) - off, min(off + len(data), (k + 1) * pl) - off
        if content[a:b] == data[a:b]:
            return True
    return False


def judge_destination(case, dest):
    """
    C13 verdict by the reference.  returns (problems, observations)
    problems: list of dicts kind/torrent/detail; kinds:
       incomplete (with .files = [(layout entry, state)]), single-file-nested, verifier
    """
    problems, obs = [], []
    for t in case["torrents"]:
        root = os.path.join(dest, t["name"])
        missing = []
        for e in t["layout"]:
            if e["rel"] is None:
                continue
            p = os.path.join(dest, *e["rel"])
            if e["length"] == 0:
                if not os.path.isfile(p):
                    obs.append("zero-length file absent from the destination")
                continue
            if not os.path.isfile(p):
                if t["single_by_metafile"] and os.path.isdir(p):
                    problems.append({"kind": "single-file-nested", "torrent": t["name"],
                                     "detail": f"{'/'.join(e['rel'])} is a directory: {sorted(os.listdir(p))[:4]}"})
                missing.append((e, "missing"))
            else:
                got = oracle.read(p)
                if len(got) != e["length"]:
                    problems.append({"kind": "destination-file-length-differs", "torrent": t["name"],
                                     "detail": f"{'/'.join(e['rel'])}: {len(got)} bytes in the destination, {e['length']} recorded"})
                if got != e["data"]:
                    missing.append((e, "wrong content" if len(got) == len(e["data"]) else
                                    f"wrong length {len(got)} for {len(e['data'])}"))
        if missing:
            problems.append({"kind": "incomplete", "torrent": t["name"], "files": missing,
                             "detail": [f"{'/'.join(e['rel'])} ({e['length']} bytes): {why}" for e, why in missing][:8]})
        for view in t["views"]:
            try:
                m, tot, _ = (oracle.verify_v1 if view == "v1" else oracle.verify_v2)(t["meta"], root)
            except Exception as ex:  # noqa
                m, tot = -1, f"reference verifier raised {type(ex).__name__}: {ex}"
            if m != tot and not missing:
                problems.append({"kind": "verifier", "torrent": t["name"],
                                 "detail": f"reference verifier, {view} view: {m} of {tot} bytes verify"})
    return problems, obs


def d27_shaped(case, t, e, dest):
    """the destination holds a same-name same-size candidate that is not the payload but agrees with it on a whole piece"""
    p = os.path.join(dest, *e["rel"])
    if "v1" != t["views"][0] or not os.path.isfile(p):
        return False
    got = oracle.read(p)
    if got == e["data"] or len(got) != len(e["data"]):
        return False
    is_candidate = any(q[-1] == e["rel"][-1] and d == got for q, d in case["placer"].files.items())
    return is_candidate and agrees_on_some_piece(t, e, got)


def d28_shaped(t, e):
    """v1 metafile with padding entries and a file shorter than a piece: every piece that overlaps it also holds a
       padding entry, which is looked up by name and never found (known finding D28)"""
    return t["has_pad"] and "v1" == t["views"][0] and e["length"] < t["pl"]


def check_records(case, reply, dest):
    """every file the tool counted exists in the destination; returns list of problem strings"""
    out = []
    if reply.get("records") is None:
        return out
    for fn, d in reply["records"]:
        if not os.path.isfile(d):
            out.append(f"counted {d} (callback) but it is not a file in the destination")
        elif not _under(os.path.realpath(d), os.path.realpath(dest)):
            out.append(f"counted {d} which is not under the destination")
    c = reply.get("counter")
    if reply.get("error") is None and c != len(reply["records"]):
        out.append(f"returned counter {c} but {len(reply['records'])} callback records")
    return out


def outside_events(reply, dest):
    """mutating audit events whose target is not under the destination (creating the destination path itself, i.e.
       os.mkdir of one of its missing ancestors, is the destination being created, not an escape)"""
    rd = os.path.realpath(dest)
    out = []
    for ev in (reply.get("events") or []):
        if ev[2]:
            out.append(ev)
        elif ev[1].startswith("<fd") or _under(ev[1], rd):
            continue
        elif ev[0] == "os.mkdir" and _under(rd, ev[1]):
            continue
        else:
            out.append(ev)
    return out


# =============================================================================== model vs implementation
def hx(s):
    return (s if isinstance(s, bytes) else s.encode("utf-8", "surrogateescape")).hex()


def hexlist(items):
    return ",".join(hx(i) for i in items) if items else "-"


def _metadata(mf):
    core.use_repo_in_process()
    from torrentfile import rebuild as rb
    return rb.Metadata(mf)


def map_pieces_tie(ctx, model_ok, quick_samples=1200):
    """Metadata(metafile)._map_pieces() vs extracted map_pieces on the same (pl, lens, total_pieces)"""
    import itertools
    rng = ctx.rng
    cases = []           # (sizes, pl, single_form, delta_pieces)
    if ctx.tier == "thorough":
        for k in range(1, 6):
            for sizes in itertools.product(range(0, 8), repeat=k):
                for pl in range(1, 5):
                    cases.append((list(sizes), pl, False, 0))
        for s in range(0, 8):
            for pl in range(1, 5):
                cases.append(([s], pl, True, 0))
        ctx.extra["map_pieces_small_scope"] = "exhaustive: 1..5 files, sizes 0..7, piece length 1..4"
    else:
        for k in range(1, 4):
            for sizes in itertools.product((0, 1, 2, 3, 4), repeat=k):
                for pl in (1, 2, 3):
                    cases.append((list(sizes), pl, False, 0))
        for _ in range(quick_samples):
            k = rng.randrange(1, 6)
            cases.append(([rng.randrange(0, 8) for _ in range(k)], rng.randrange(1, 5), k == 1 and rng.random() < 0.5, 0))
    for _ in range(60 if ctx.tier == "quick" else 600):      # recorded piece count off by one/two: model takes it as given
        k = rng.randrange(1, 5)
        cases.append(([rng.randrange(0, 8) for _ in range(k)], rng.randrange(1, 5), False, rng.choice([-2, -1, 1, 2])))
    for _ in range(40 if ctx.tier == "quick" else 400):      # real granularity
        pl = rng.choice([16384, 32768])
        pool = trees.boundary_sizes(pl)
        k = rng.randrange(1, 6)
        cases.append(([rng.choice(pool) if rng.random() < 0.8 else rng.randrange(0, 2 * pl) for _ in range(k)], pl, False, 0))
    lines, impl = [], []
    with core.Scratch("vc13m_") as tmp:
        mf = os.path.join(tmp, "t.torrent")
        for n, (sizes, pl, single, delta) in enumerate(cases):
            files = [((f"f{j}",), bytes(s)) for j, s in enumerate(sizes)]
            if single:
                raw = oracle.ref_metafile("n", [((), bytes(sizes[0]))], pl, 1, single=True)
            else:
                raw = oracle.ref_metafile("n", files, pl, 1)
            if delta:
                meta = oracle.bdecode_strict(raw)
                pcs = meta[b"info"][b"pieces"]
                pcs = pcs[:max(0, len(pcs) + 20 * delta)] if delta < 0 else pcs + bytes(20 * delta)
                meta[b"info"][b"pieces"] = pcs
                raw = oracle.bencode(meta)
            with open(mf, "wb") as fd:
                fd.write(raw)
            try:
                m = _metadata(mf)
                m._map_pieces()
                got = [[(p.full, p.start, p.stop) for p in node.paths] for node in m.piece_nodes]
                fulls = [str(f["full"]) for f in m.files]
                lens = [f["length"] for f in m.files]
                total = len(m.pieces) // 20
            except Exception as e:  # noqa
                ctx.disagree("Metadata._map_pieces raised", {"sizes": sizes, "pl": pl}, "a piece map", f"{type(e).__name__}: {e}")
                continue
            impl.append((got, fulls))
            lines.append((str(pl), ",".join(map(str, lens)) or "-", str(total)))
            cl = ["map_pieces tie"]
            off = 0
            for i, s in enumerate(sizes):
                off += s
                if s and off % pl == 0 and i + 1 < len(sizes):
                    cl.append("file end = piece end")
                if s == 0:
                    cl.append("empty file " + ("first" if i == 0 else "last" if i == len(sizes) - 1 else "middle"))
            if delta:
                cl.append("recorded piece count != ceil(total/pl)")
            if pl >= 16384:
                cl.append("map_pieces real granularity")
            ctx.case(key=("map", tuple(sizes), pl, single, delta), classes=cl, nontrivial=sum(sizes) > 0,
                     sample={"sizes": sizes, "pl": pl, "piece_map": got} if n == 11 else None)
    if not model_ok:
        return
    outs = modelrun.run("map_pieces", lines)
    if outs is None:
        ctx.broken.append("extracted model driver (map_pieces) failed to run")
        return
    for l, o, (got, fulls) in zip(lines, outs, impl):
        ctx.traces_validated += 1
        try:
            model = [] if o == "none" else [
                [] if pc == "-" else [(fulls[int(r.split(":")[0])], int(r.split(":")[1]),
                                       -1 if r.split(":")[2] == "-" else int(r.split(":")[2])) for r in pc.split(",")]
                for pc in o.split(";")]
        except Exception:  # noqa
            model = o
        if model != got:
            ctx.disagree("Model/Rebuild.v map_pieces vs Metadata._map_pieces", {"pl": l[0], "lens": l[1], "total_pieces": l[2]},
                         str(model)[:300], str(got)[:300])


def match_v1_tie(ctx, model_ok):
    """Metadata._match_v1 (real _index_contents, real find_matches; copypath recorded) vs extracted match_v1"""
    core.use_repo_in_process()
    from torrentfile import rebuild as rb
    rng = ctx.rng
    n = 250 if ctx.tier == "quick" else 4000
    lines, impl, descs = [], [], []
    real_listdir = os.listdir
    with core.Scratch("vc13f_") as tmp:
        for ci in range(n):
            big = ci % 25 == 24
            pl = rng.choice([16384]) if big else rng.randrange(1, 5)
            k = rng.randrange(1, 5)
            if big:
                k = min(k, 3)
                sizes = [rng.choice([0, 100, pl, pl + 1, pl - 1]) for _ in range(k)]
            else:
                sizes = [rng.randrange(0, 7) for _ in range(k)]
            # siblings in one directory, shared names; now and then names that contain consecutive dots (ordinary names)
            combos = [(d, nm) for d in ("d0", rng.choice(["d1", "d1", "d..1"])) for nm in ("a", "b", rng.choice(["c", "c", "wait....c"]))]
            rng.shuffle(combos)
            dirs, names = [c[0] for c in combos[:k]], [c[1] for c in combos[:k]]
            datas = [rng.randbytes(s) if big else bytes(rng.choice(b"xyz") for _ in range(s)) for s in sizes]
            files = [((dirs[j], names[j]), datas[j]) for j in range(k)]
            raw = oracle.ref_metafile("n", files, pl, 1)
            if rng.random() < 0.15:            # a damaged digest: the piece must fail, nothing may be copied for it
                meta = oracle.bdecode_strict(raw)
                pcs = bytearray(meta[b"info"][b"pieces"])
                if pcs:
                    pcs[rng.randrange(len(pcs))] ^= 1
                    meta[b"info"][b"pieces"] = bytes(pcs)
                    raw = oracle.bencode(meta)
            cdir = os.path.join(tmp, f"c{ci}")
            os.makedirs(cdir)
            mf = os.path.join(cdir, "m.torrent")
            with open(mf, "wb") as fd:
                fd.write(raw)
            # candidates: sub-directories 0..9 enumerated in sorted order
            slot = 0
            kinds = set()
            for j in range(k):
                cands = []
                r = rng.random()
                if r < 0.85:
                    cands.append(("intact", datas[j]))
                if rng.random() < 0.4 and sizes[j]:
                    cands.append(("wrong", wholly_different(datas[j], rng.randrange(251))))
                if rng.random() < 0.3 and sizes[j] > 1:
                    d = bytearray(datas[j])
                    d[rng.randrange(len(d))] ^= 0x55
                    cands.append(("partial", bytes(d)))
                if rng.random() < 0.3:
                    cands.append(("size", datas[j] + b"!"))
                rng.shuffle(cands)
                for kind, d in cands:
                    kinds.add(kind)
                    sd = os.path.join(cdir, "s", f"{slot:02d}")
                    slot += 1
                    os.makedirs(sd)
                    with open(os.path.join(sd, names[j]), "wb") as fd:
                        fd.write(d)
            os.makedirs(os.path.join(cdir, "s"), exist_ok=True)
            dest = os.path.join(cdir, "dest")
            calls = []
            real_copy = rb.copypath
            os.listdir = lambda p=".": sorted(real_listdir(p))
            try:
                m = rb.Metadata(mf)
                fm = rb._index_contents([os.path.join(cdir, "s")], m.filenames)
                rb.copypath = lambda src, dst: (calls.append((src, os.path.relpath(dst, dest))), real_copy(src, dst))[1]
                trees.quiet(m.rebuild, fm, dest)          # dispatches to _match_v1 (v1 metafile)
                outcome = "".join("S" if nd.result is None else "T" if nd.result else "F" for nd in m.piece_nodes)
            except Exception as e:  # noqa
                ctx.disagree("Metadata._match_v1 raised", {"sizes": sizes, "pl": pl, "names": names}, "an outcome",
                             f"{type(e).__name__}: {e}")
                continue
            finally:
                rb.copypath = real_copy
                os.listdir = real_listdir
            fulls = [str(f["full"]) for f in m.files]
            fnames = [f["filename"] for f in m.files]
            fmf = ";".join(hx(nm) + "=" + ",".join(hx(loc) + ":" + oracle.read(loc).hex() for loc, _sz in cs)
                           for nm, cs in fm.items()) or "-"
            # (hx: a `pieces` value left as text -- pyben hands valid UTF-8 over as str -- goes to the model as the bytes it stands for)
            lines.append((str(pl), ",".join(map(str, sizes)), hexlist(fulls), hexlist(fnames), hx(m.pieces), fmf))
            impl.append(outcome + "|" + (",".join(hx(a) + ">" + hx(b) for a, b in calls) or "-"))
            descs.append({"pl": pl, "sizes": sizes, "files": [f"{d}/{nm}" for d, nm in zip(dirs, names)], "candidates": sorted(kinds)})
            cl = ["match_v1 tie"] + ["match_v1 tie: candidate " + x for x in sorted(kinds)]
            if "S" in outcome:
                cl.append("match_v1 tie: piece skipped via `copied`")
            if "F" in outcome:
                cl.append("match_v1 tie: piece fails")
            if len(set(names)) < len(names):
                cl.append("two files of the torrent share a file name")
            if len(set(dirs)) < len(dirs):
                cl.append("several files per directory")
            ctx.case(key=("match", ci, pl, tuple(sizes), tuple(dirs), tuple(names), outcome), classes=cl, nontrivial=sum(sizes) > 0,
                     sample={"pl": pl, "sizes": sizes, "names": names, "outcome": outcome, "copypath_calls": calls[:6]}
                     if ci == 5 else None)
            shutil.rmtree(cdir, ignore_errors=True)
    if not model_ok:
        return
    outs = modelrun.run("match_v1", lines)
    if outs is None:
        ctx.broken.append("extracted model driver (match_v1) failed to run")
        return
    for l, o, im, d in zip(lines, outs, impl, descs):
        ctx.traces_validated += 1
        if o != im:
            ctx.disagree("Model/Rebuild.v match_v1 (outcomes | copypath trace) vs Metadata._match_v1", d, o[:400], im[:400])


HOSTILE = ["", ".", "..", "a", "a/b", "/abs", "..x", "a/../../b"]
EXTRA_COMPONENTS = ["...", " ", ". ", "a/", "/", "//", "a\\b", "\\", "a\x00b", "\x00", "é", "日本/x", "..é", "-", "~", "a b",
                    "../../../../../../../../x", "..\\..", "a/.", "./a", "a//b", "x" * 300, "\n", "a\n..", "%2e%2e", "C:", "C:\\x"]


modelrun.register("rebuild", "parts", "joinparts")


def parts_tie(ctx, model_ok):
    """Model/RebuildRun.v parts_of / join_parts (how a copypath target is read as path parts) vs pathlib / os.path.join"""
    if not model_ok:
        return
    import pathlib
    rng = random.Random(ctx.rng.getrandbits(64))
    alpha = ["a", "b", "é", "x y", ".", "..", "", "c.d", "..x", "日本"]
    strs = ["", ".", "/", "a", "a/", "/a", "a//b", "./a", "a/./b", "a/../b", "/a/b/", "..", "../a", "a/..", "/.", "/..", "a/b/."]
    for _ in range(300 if ctx.tier == "quick" else 5000):
        k = rng.randrange(0, 6)
        s = "/".join(rng.choice(alpha) for _ in range(k))
        if rng.random() < 0.3:
            s = "/" + s
        strs.append(s)
    strs = [s for s in dict.fromkeys(strs) if not s.startswith("//") or s.startswith("///")]   # POSIX keeps exactly two slashes apart
    outs = modelrun.run("parts", [(hx(s),) for s in strs])
    if outs is None:
        ctx.broken.append("extracted model driver (parts) failed to run")
        return
    for s, o in zip(strs, outs):
        ctx.traces_validated += 1
        want = hexlist(list(pathlib.PurePosixPath(s).parts))
        if o != want:
            ctx.disagree("Model/RebuildRun.v parts_of vs pathlib.PurePosixPath(s).parts", {"string": s}, o, want)
    dests = [["/", "d"], ["out"], ["/", "tmp", "x y"], []]
    cases = [(d, s) for d in dests for s in strs[:120]]
    outs = modelrun.run("joinparts", [(hexlist(d), hx(s)) for d, s in cases])
    if outs is None:
        ctx.broken.append("extracted model driver (joinparts) failed to run")
        return
    for (d, s), o in zip(cases, outs):
        ctx.traces_validated += 1
        dstr = str(pathlib.PurePosixPath(*d)) if d else ""
        want = hexlist(list(pathlib.PurePosixPath(os.path.join(dstr, s)).parts))
        if o != want:
            ctx.disagree("Model/RebuildRun.v join_parts vs Path(os.path.join(dest, full)).parts", {"dest": d, "full": s}, o, want)
    ctx.case(key=("parts-tie", len(strs)), classes=["path parts tie"])


def check_parts_tie(ctx, model_ok, components, lists):
    """Metadata._check_parts vs safe_comp / check_parts_model"""
    core.use_repo_in_process()
    from torrentfile import rebuild as rb
    chk = getattr(rb.Metadata, "_check_parts", None)

    def impl(parts):
        if chk is None:
            return "1"          # no validator: everything is let through
        try:
            chk(list(parts))
            return "1"
        except ValueError:
            return "0"
    if chk is None:
        ctx.disagree("Metadata._check_parts vs Model/PathSafe.v", "rebuild.py", "a validator of path elements", "no such method")
    if not model_ok:
        return
    cl = lambda c: ("empty" if c == "" else "dot" if c == "." else "dotdot" if c == ".." else  # noqa: E731
                    "absolute" if c.startswith("/") else "with separator" if "/" in c else "plain")
    outs = modelrun.run("safe_comp", [(hx(c),) for c in components])
    if outs is None:
        ctx.broken.append("extracted model driver (safe_comp) failed to run")
        return
    for c, o in zip(components, outs):
        ctx.traces_validated += 1
        ctx.case(key=("comp", c), classes=["validator tie: component " + cl(c)])
        got = impl([c])
        if o != got:
            ctx.disagree("Model/PathSafe.v safe_comp vs Metadata._check_parts", {"component": c}, o, got)
    outs = modelrun.run("check_parts", [(hexlist(l),) for l in lists])
    if outs is None:
        ctx.broken.append("extracted model driver (check_parts) failed to run")
        return
    for l, o in zip(lists, outs):
        ctx.traces_validated += 1
        got = impl(l)
        if o != got:
            ctx.disagree("Model/PathSafe.v check_parts_model vs Metadata._check_parts", {"parts": list(l)}, o, got)
    ctx.case(key=("lists", len(lists)), classes=["validator tie: element lists"] * 1)


# ================================================================ Metadata(metafile) / _match_v2 vs Model/RebuildMeta.v
OP = oracle.OrderedPairs
PLT = 16384
TDATA = bytes((i * 11 + 7) % 256 for i in range(60))
HOSTILE_KEYS = HOSTILE + ["/abs/x", "a/", "../../../x", "a\x00b", "\x00", "...", " ", "é", "..é", "a\\b", "\n", "x" * 300,
                          b"\xff", b"a\xc3\x28", b"\xed\xa0\x80", b"\xc0\xaf", b"\xf4\x90\x80\x80", b"\xf0\x9f\x98\x80", b"\xe2\x82"]


def _enc(c):
    return c if isinstance(c, (bytes, int)) else c.encode("utf-8", "surrogateescape")


def render_value(v):
    """wire form of a decoded value, as ocaml/areas/rebuild.ml prints it"""
    if v is None:
        return "~"
    if isinstance(v, bool):
        return "b" + str(v)
    if isinstance(v, int):
        return "i%d" % v
    if isinstance(v, str):
        return "s" + v.encode("utf-8", "surrogateescape").hex()
    if isinstance(v, (bytes, bytearray)):
        return "s" + bytes(v).hex()
    if isinstance(v, (list, tuple)):
        return "l%d" % len(v)
    if isinstance(v, dict):
        return "d%d" % len(v)
    return "?" + type(v).__name__


def render_metadata(m):
    """what Metadata(path) holds, in the wire form of `extract`: paths as pathlib parts"""
    from pathlib import Path

    def parts(x):
        return hexlist([p for p in Path(str(x)).parts]) if not isinstance(x, (bytes, int)) else "?" + repr(x)
    ents = []
    for e in m.files:
        fn = e["filename"]
        ents.append(":".join([parts(e["path"]), parts(e["full"]), hx(fn) if isinstance(fn, (str, bytes)) else "?",
                              str(e["length"]) if isinstance(e["length"], int) else "?" + repr(e["length"])[:20],
                              render_value(e.get("root"))]))
    return "|".join([hx(m.name), render_value(m.meta_version), render_value(m.piece_length), render_value(m.pieces),
                     "1" if getattr(m, "is_file", False) else "0", ";".join(ents) or "-"])


def _leaf(data, root=True):
    d = OP([(b"length", len(data))])
    if data and root:
        d.append((b"pieces root", oracle.pieces_root(data)))
    return OP([(b"", d)])


def _tree_pairs(spec):
    """spec: list of (key, bytes data | list spec) -> OrderedPairs file tree in the given order"""
    return OP([(_enc(k), _leaf(v) if isinstance(v, (bytes, bytearray)) else _tree_pairs(v)) for k, v in spec])


def v2_raw(name, spec, hybrid=False, tree=None):
    """a v2 / hybrid metafile whose file tree is written exactly as given (any key order, any keys)"""
    info = OP([(b"file tree", tree if tree is not None else _tree_pairs(spec)), (b"meta version", 2), (b"name", _enc(name)),
               (b"piece length", PLT)])
    if hybrid:
        info.insert(0, (b"files", [OP([(b"length", len(TDATA)), (b"path", [b"a"])])]))
        info.append((b"pieces", b"".join(oracle.v1_pieces(TDATA, PLT))))
    return oracle.bencode_ordered(OP([(b"info", info)]))


def _key_positions(spec, pre=()):
    out = []
    for i, (k, v) in enumerate(spec):
        out.append(pre + (i,))
        if not isinstance(v, (bytes, bytearray)):
            out += _key_positions(v, pre + (i,))
    return out


def _replace_key(spec, pos, h):
    out = []
    for i, (k, v) in enumerate(spec):
        if i == pos[0]:
            if len(pos) == 1:
                out.append((h, v))
            else:
                out.append((k, _replace_key(v, pos[1:], h)))
        else:
            out.append((k, v))
    return out


BASE_SPEC = [("d1", [("a", TDATA), ("s", [("t", [("b", TDATA)]), ("u", b"")]), ("z", TDATA[:7])]), ("d2", [("c", TDATA)]), ("e", TDATA)]
REPLACEMENTS = [0, 2, -1, 1 << 70, b"", b"x", b"n", b"abc", b"a/b", b"..", b"\xff\xfe", "é".encode(), [], [b""], [b"a"], [b"a", b"b"],
                [b"..", b"x"], [5], [[b"a"]], OP(), OP([(b"", OP([(b"length", 1)]))]), OP([(b"length", 3)]),
                OP([(b"a", OP([(b"", OP([(b"length", 2), (b"pieces root", b"r" * 32)]))]))]), OP([(b"", 5)]), OP([(b"", b"x")]),
                OP([(b"", [])]), OP([(b"", OP())]), OP([(b"", OP([(b"length", b"3")]))]), OP([(b"", OP([(b"length", 0), (b"pieces root", [])]))])]


def _nodes(v, pre=()):
    """all positions inside a decoded structure: a position is a tuple of indices; dict items have positions (i, 0|1)"""
    out = [pre]
    if isinstance(v, OP):
        for i, (k, x) in enumerate(v):
            out.append(pre + (i, 0))
            out += _nodes(x, pre + (i, 1))
    elif isinstance(v, list):
        for i, x in enumerate(v):
            out += _nodes(x, pre + (i,))
    return out


def _set(v, pos, new):
    if not pos:
        return new
    if isinstance(v, OP):
        i, which = pos[0], pos[1]
        out = OP(v)
        k, x = v[i]
        out[i] = (_set(k, pos[2:], new) if which == 0 else k, x if which == 0 else _set(x, pos[2:], new))
        return out
    out = list(v)
    out[pos[0]] = _set(v[pos[0]], pos[1:], new)
    return out


def _mutate(rng, v):
    """one random change of shape: replace a node, drop / duplicate / reorder items of a dictionary, rename a key"""
    nodes = _nodes(v)
    for _ in range(20):
        pos = rng.choice(nodes)
        r = rng.random()
        if len(pos) >= 2 and pos[-1] == 0 and isinstance(_get(v, pos[:-2]), OP):      # a key
            if r < 0.5:
                new = rng.choice([b"", b"x", b"length", b"path", b"files", b"name", b"..", b"a/b", b"\xff", b"pieces root", b"attr"])
                return _set(v, pos, new), "key renamed"
            continue
        if r < 0.6:
            new = rng.choice(REPLACEMENTS)
            if isinstance(new, bytes) and rng.random() < 0.3:
                new = _enc(rng.choice(HOSTILE_KEYS))
            return _set(v, pos, new), "value replaced by " + type(new).__name__
        target = _get(v, pos)
        if isinstance(target, OP) and target:
            d = OP(target)
            if r < 0.75:
                del d[rng.randrange(len(d))]
                what = "key dropped"
            elif r < 0.85:
                d.append(d[rng.randrange(len(d))][:1] + (rng.choice(REPLACEMENTS),))
                what = "key duplicated"
            else:
                rng.shuffle(d)
                what = "keys reordered"
            return _set(v, pos, d), what
        if isinstance(target, list) and target:
            l = list(target)
            if r < 0.8:
                del l[rng.randrange(len(l))]
                return _set(v, pos, l), "list item dropped"
            l.append(rng.choice(REPLACEMENTS))
            return _set(v, pos, l), "list item added"
    return v, "unchanged"


def _get(v, pos):
    for i, p in enumerate(pos):
        if isinstance(v, OP):
            if i + 1 >= len(pos):
                return v[p]
            v = v[p]
        elif isinstance(v, tuple):
            v = v[p]
        else:
            v = v[p]
    return v


def extract_corpus(ctx, tmp):
    """list of (source class, label, raw metafile bytes)"""
    rng = ctx.rng
    quick = ctx.tier == "quick"
    out = []
    # (a) every creator of /repo and the reference encoder on generated payloads
    for i, kind in enumerate((ALL_KINDS + ["v1", "ref1", "v1-align"]) * (1 if quick else 6)):
        pl = rng.choice([16384, 32768])
        name, single, tree, _ = gen_payload(rng, pl, i)
        t = {"name": name, "single": single, "tree": tree, "pl": pl, "kind": kind}
        try:
            make_metafile(t, os.path.join(tmp, f"mk{i}"))
        except Exception as e:  # noqa
            ctx.broken.append(f"extract tie: could not create a {kind} metafile: {type(e).__name__}: {e}")
            continue
        out.append(("creator " + kind if not kind.startswith("ref") else "reference encoder", f"{kind} metafile of {name}", t["raw"]))
        shutil.rmtree(os.path.join(tmp, f"mk{i}"), ignore_errors=True)
    # (b) reference encoder: sibling sub-directories, three levels, empty files, single-file forms
    files = [(("d1", "a"), TDATA), (("d1", "s", "t", "b"), TDATA), (("d1", "s", "u"), b""), (("d1", "z"), TDATA[:7]),
             (("d2", "c"), TDATA), (("e",), TDATA)]
    for version in (1, 2, 3):
        out.append(("reference encoder", f"v{version} nested three deep with sibling directories", oracle.ref_metafile("n", files, PLT, version)))
        out.append(("reference encoder", f"v{version} single file", oracle.ref_metafile("n", [((), TDATA)], PLT, version, single=True)))
        out.append(("reference encoder", f"v{version} single empty file", oracle.ref_metafile("n", [((), b"")], PLT, version, single=True)))
        out.append(("reference encoder", f"v{version} one file named like the torrent inside the directory",
                    oracle.ref_metafile("n", [(("n",), TDATA)], PLT, version)))
    # (c) the hostile metafiles of C19's end-to-end search (v1 path sequences, entries with extra keys, tree keys, names, other types)
    from props import c19
    for c in c19.gen_cases(ctx.tier, "/srv/abs_target", random.Random(rng.getrandbits(32))):
        out.append(("C19 " + c["kind"], c["label"], c["raw"]))
    # (d) file trees written key by key: every hostile element at every key position of a tree with sibling
    #     sub-directories three levels deep (directory keys at depth 1, 2, 3; leaf keys at depth 1..4; first / later sibling)
    positions = _key_positions(BASE_SPEC)
    keys = HOSTILE_KEYS if not quick else HOSTILE_KEYS[:14] + HOSTILE_KEYS[-7:]
    for h in keys:
        for pos in positions:
            for hybrid in ((False, True) if not quick or len(pos) == 1 else (rng.random() < 0.3,)):
                spec = _replace_key(BASE_SPEC, pos, h)
                isdir = not isinstance(_spec_at(spec, pos), (bytes, bytearray))
                out.append(("tree keys", f"{'hybrid' if hybrid else 'v2'} tree {'directory' if isdir else 'leaf'} key {h!r} at depth {len(pos)}"
                            f"{'' if pos[-1] == 0 else ', later sibling'}", v2_raw("n", spec, hybrid)))
        out.append(("tree keys", f"v2 tree: empty directory called {h!r} after a file", v2_raw("n", [("ok", TDATA), (h, [])])))
        out.append(("tree keys", f"v2 tree: key {h!r} inside a leaf node (never visited)",
                    v2_raw("n", None, tree=OP([(b"f", OP([(b"", OP([(b"length", 3)])), (_enc(h), OP([(b"", OP([(b"length", 1)]))]))]))]))))
        out.append(("names", f"v2 single-file form named {h!r}", v2_raw(h, [(h, TDATA)])))
        out.append(("names", f"v2 tree under the name {h!r}", v2_raw(h, BASE_SPEC)))
        for single in (False, True):
            info = OP([(b"name", _enc(h)), (b"piece length", PLT), (b"pieces", b"".join(oracle.v1_pieces(TDATA, PLT)))])
            info.append((b"length", len(TDATA)) if single else (b"files", [OP([(b"length", len(TDATA)), (b"path", [b"d", b"a"])])]))
            out.append(("names", f"v1 {'single' if single else 'multi'}-file name {h!r}", oracle.bencode_ordered(OP([(b"info", info)]))))
        info = OP([(b"name", b"n"), (b"piece length", PLT), (b"pieces", b""), (b"files", [
            OP([(b"length", 1), (b"path", [b"ok"])]), OP([(b"attr", b"p"), (b"length", 2), (b"path", [b"d", _enc(h), b"x"])])])])
        out.append(("v1 paths", f"v1: second entry (attr p) with element {h!r} in the middle", oracle.bencode_ordered(OP([(b"info", info)]))))
    # single-file special case and its neighbours
    for lab, tree in (("one key equal to the name, no leaf marker", OP([(b"n", OP([(b"x", _leaf(TDATA))]))])),
                      ("one key equal to the name, leaf and further keys", OP([(b"n", OP([(b"x", _leaf(TDATA)), (b"", OP([(b"length", 4)]))]))])),
                      ("two keys, the first equal to the name", OP([(b"n", _leaf(TDATA)), (b"m", _leaf(TDATA))])),
                      ("one key different from the name", OP([(b"m", _leaf(TDATA))])),
                      ("empty tree", OP()), ("empty directories only", OP([(b"d", OP([(b"e", OP())]))])),
                      ("leaf without pieces root", OP([(b"n", _leaf(TDATA, root=False))])),
                      ("pieces root an empty list", OP([(b"q", OP([(b"", OP([(b"length", 0), (b"pieces root", [])]))]))])),
                      ("negative length", OP([(b"q", OP([(b"", OP([(b"length", -4)]))]))]))):
        out.append(("single-file forms", "v2: " + lab, v2_raw("n", None, tree=tree)))
    # v1 shapes: path given as a string, empty path, files as empty dict / string, neither files nor length
    for lab, fields in (("path is a str", [(b"files", [OP([(b"length", 1), (b"path", "aé日".encode())])])]),
                        ("path is a str with a dot", [(b"files", [OP([(b"length", 1), (b"path", b"a.b")])])]),
                        ("path is an empty str", [(b"files", [OP([(b"length", 1), (b"path", b"")])])]),
                        ("path is bytes", [(b"files", [OP([(b"length", 1), (b"path", b"a\xff")])])]),
                        ("path is empty", [(b"files", [OP([(b"length", 1), (b"path", [])])])]),
                        ("path is a dict", [(b"files", [OP([(b"length", 1), (b"path", OP([(b"a", 1)]))])])]),
                        ("files is an empty dict", [(b"files", OP())]), ("files is an empty str", [(b"files", b"")]),
                        ("files is a str", [(b"files", b"ab")]), ("files is a dict", [(b"files", OP([(b"a", 1)]))]),
                        ("files is empty", [(b"files", [])]), ("neither files nor length", []),
                        ("length and files", [(b"length", 5), (b"files", [OP([(b"length", 1), (b"path", [b".."])])])]),
                        ("length is a str", [(b"length", b"5")]), ("pieces is an int", [(b"length", 5), (b"pieces", 7)]),
                        ("pieces is a list", [(b"length", 5), (b"pieces", [1])]), ("meta version 3", [(b"length", 5), (b"meta version", 3)]),
                        ("meta version a str", [(b"length", 5), (b"meta version", b"2")]),
                        ("meta version 2 without file tree", [(b"length", 5), (b"meta version", 2)]),
                        ("meta version 2, file tree a list", [(b"meta version", 2), (b"file tree", [b"n"])]),
                        ("meta version 2, file tree a str", [(b"meta version", 2), (b"file tree", b"n")]),
                        ("meta version 2, pieces an int", [(b"meta version", 2), (b"file tree", OP([(b"n", _leaf(TDATA))])), (b"pieces", 3)])):
        for with_pl in (True, False) if lab == "neither files nor length" else (True,):
            info = OP([(b"name", b"n")] + ([(b"piece length", PLT)] if with_pl else []) + fields)
            out.append(("odd shapes", "v1: " + lab + ("" if with_pl else ", no piece length"), oracle.bencode_ordered(OP([(b"info", info)]))))
    for lab, raw in (("top level a list", b"l4:infoe"), ("info a list", b"d4:infol1:aee"), ("info a str", b"d4:info4:namee"),
                     ("no info", b"d1:ai1ee"), ("trailing bytes", oracle.ref_metafile("n", [((), TDATA)], PLT, 1, single=True) + b"junk"),
                     ("not bencode", b"hello"), ("empty file", b"")):
        out.append(("odd shapes", lab, raw))
    # (e) random changes of shape applied to well-formed metafiles
    bases = [oracle.bdecode_lenient(r) for s0, _l, r in out if s0.startswith("reference")]
    for i in range(600 if quick else 12000):
        v = rng.choice(bases)
        whats = []
        for _ in range(rng.choice([1, 1, 2, 3])):
            v, w = _mutate(rng, v)
            whats.append(w)
        try:
            raw = oracle.bencode_ordered(v)
        except Exception:  # noqa
            continue
        out.append(("shape mutation", "; ".join(whats), raw))
    return out


def _spec_at(spec, pos):
    k, v = spec[pos[0]]
    return v if len(pos) == 1 else _spec_at(v, pos[1:])


def extract_tie(ctx, model_ok):
    """Metadata(metafile) -- name, meta_version, piece_length, pieces, is_file, per entry path/full/filename/length/root, or the
       refusal with any exception -- vs the extracted metadata_of_bytes (pyloads + extract + __init__) on the same bytes"""
    core.use_repo_in_process()
    from torrentfile import rebuild as rb
    lines, impl, labels = [], [], []
    with core.Scratch("vc13x_") as tmp:
        corpus = extract_corpus(ctx, tmp)
        mf = os.path.join(tmp, "x.torrent")
        seen = set()
        for src, label, raw in corpus:
            if raw in seen or len(raw) > 400000:
                continue
            seen.add(raw)
            with open(mf, "wb") as fd:
                fd.write(raw)
            try:
                m = rb.Metadata(mf)
                got = render_metadata(m)
                err = None
            except Exception as e:  # noqa  every exception is a refusal
                got, err = "none", type(e).__name__
            lines.append((raw.hex(),))
            impl.append((got, err))
            labels.append((src, label))
            cl = ["extract tie: " + src, "extract tie: " + ("refused with " + err if err else "accepted")]
            if not err:
                n = got.split("|")[5].count(";") + 1 if got.split("|")[5] != "-" else 0
                cl.append("extract tie: accepted, " + ("no entry" if n == 0 else "one entry" if n == 1 else "several entries"))
            ctx.case(key=("extract", hashlib.sha1(raw).hexdigest()), classes=cl, nontrivial=True,
                     sample={"metafile": label, "Metadata": got[:300], "exception": err} if len(lines) == 40 else None)
    if not model_ok:
        return
    outs = modelrun.run("extract", lines)
    if outs is None:
        ctx.broken.append("extracted model driver (extract) failed to run")
        return
    for l, o, (got, err), (src, label) in zip(lines, outs, impl, labels):
        ctx.traces_validated += 1
        if o != got:
            ctx.disagree("Model/RebuildMeta.v metadata_of_bytes vs Metadata(metafile) (name|meta version|piece length|pieces|is_file|"
                         "entries path:full:filename:length:root, or none = refused)",
                         {"metafile": label, "source": src, "metafile_hex": l[0] if len(l[0]) < 1600 else l[0][:800] + "..."},
                         o[:500], (got if not err else f"none ({err})")[:500])


def match_v2_tie(ctx, model_ok):
    """Metadata._match_v2 (real Metadata, real _index_contents, real HasherV2; copypath and the callback recorded) vs the extracted
       extract + match_v2 on the same metafile bytes and the same candidates"""
    core.use_repo_in_process()
    from torrentfile import rebuild as rb
    rng = ctx.rng
    n = 160 if ctx.tier == "quick" else 2500
    lines, impl, descs = [], [], []
    real_listdir = os.listdir
    with core.Scratch("vc13v_") as tmp:
        for ci in range(n):
            big = ci % 8 == 7
            pl = rng.choice([16384, 32768])
            k = rng.randrange(1, 5)
            small = [0, 0, 1, 2, 100, 300]
            sizes = [rng.choice(small) for _ in range(k)]
            if big:
                sizes[rng.randrange(k)] = rng.choice([16383, 16384, 16385, pl, pl + 1, 2 * pl + 5])
            dd, cc = rng.choice(["d1", "d1", "d..1"]), rng.choice(["c", "c", "wait....c"])       # consecutive dots: ordinary names
            combos = [(d, nm) for d in ((), ("d0",), (dd,), (dd, "s")) for nm in ("a", "b", cc)]
            rng.shuffle(combos)
            comps = [c[0] + (c[1],) for c in combos[:k]]
            datas = [rng.randbytes(s) for s in sizes]
            single = k == 1 and rng.random() < 0.4
            version = rng.choice([2, 2, 3])
            cdir = os.path.join(tmp, f"c{ci}")
            os.makedirs(os.path.join(cdir, "s"))
            mf = os.path.join(cdir, "m.torrent")
            how = "reference encoder"
            if ci % 10 == 3 and sum(sizes) > 0:
                how = rng.choice(["v2-class", "v2-asm", "hybrid-class", "hybrid-asm"])
                root = os.path.join(cdir, "orig", "n")
                trees.write_tree(root, {(): datas[0]} if single else dict(zip(comps, datas)))
                raw = trees.create(how, root, mf, pl)
            else:
                raw = oracle.ref_metafile("n", [((), datas[0])] if single else sorted(zip(comps, datas)), pl, version, single=single)
            tamper = None
            r = rng.random()
            if r < 0.4 and not how.startswith(("v2-", "hybrid-")):
                meta = oracle.bdecode_strict(raw)
                leaves = []

                def rec(d):
                    for key, v in d.items():
                        if key == b"" and isinstance(v, dict) and b"length" in v:
                            leaves.append(v)
                        elif isinstance(v, dict):
                            rec(v)
                rec(meta[b"info"][b"file tree"])
                leaf = rng.choice(leaves)
                tamper = rng.choice(["root damaged", "root dropped", "recorded length + 1", "recorded length - 1", "root an empty list",
                                     "root a text", "root an int", "length 0 with the root of the file"])
                if tamper == "root damaged" and b"pieces root" in leaf:
                    x = bytearray(leaf[b"pieces root"])
                    x[rng.randrange(32)] ^= 1 << rng.randrange(8)
                    leaf[b"pieces root"] = bytes(x)
                elif tamper == "root dropped":
                    leaf.pop(b"pieces root", None)
                elif tamper == "recorded length + 1":
                    leaf[b"length"] += 1
                elif tamper == "recorded length - 1":
                    leaf[b"length"] -= 1
                elif tamper == "root an empty list":
                    leaf[b"pieces root"] = []
                elif tamper == "root a text":
                    leaf[b"pieces root"] = b"r" * 32
                elif tamper == "root an int":
                    leaf[b"pieces root"] = 7
                elif tamper == "length 0 with the root of the file":
                    leaf[b"length"] = 0
                raw = oracle.bencode(meta)
            with open(mf, "wb") as fd:
                fd.write(raw)
            slot = 0
            kinds = set()
            for j in range(k):
                nm = "n" if single else comps[j][-1]
                cands = []
                if rng.random() < 0.85:
                    cands.append(("intact", datas[j]))
                if rng.random() < 0.4 and sizes[j]:
                    cands.append(("wrong", wholly_different(datas[j], rng.randrange(251))))
                if rng.random() < 0.3 and sizes[j] > 1:
                    d = bytearray(datas[j])
                    d[rng.randrange(len(d))] ^= 0x55
                    cands.append(("one byte off", bytes(d)))
                if rng.random() < 0.35:
                    cands.append(("longer: genuine bytes then junk", datas[j] + rng.choice([b"!", b"\x00", bytes(5), rng.randbytes(40)])))
                if rng.random() < 0.25 and sizes[j]:
                    cands.append(("shorter", datas[j][:-1]))
                if rng.random() < 0.15:
                    cands.append(("empty", b""))
                if rng.random() < 0.12:
                    cands = []
                rng.shuffle(cands)
                for kind, d in cands:
                    kinds.add(kind)
                    sd = os.path.join(cdir, "s", f"{slot:02d}")
                    slot += 1
                    os.makedirs(sd)
                    with open(os.path.join(sd, nm), "wb") as fd:
                        fd.write(d)
            dest = os.path.join(cdir, "dest")
            calls, counted = [], []
            real_copy = rb.copypath
            os.listdir = lambda p=".": sorted(real_listdir(p))
            fm = {}
            try:
                try:
                    m = rb.Metadata(mf)
                    fm = rb._index_contents([os.path.join(cdir, "s")], m.filenames)
                    rb.copypath = lambda src, dst: (calls.append((src, os.path.relpath(dst, dest))), real_copy(src, dst))[1]
                    rb.Metadata.cb = staticmethod(lambda *a: counted.append(a))
                    if m.meta_version != 2:
                        im = "none"
                    else:
                        trees.quiet(m.rebuild, fm, dest)
                        im = f"{len(counted)}|" + (",".join(hx(a) + ">" + hx(b) for a, b in calls) or "-")
                    mpl = m.piece_length
                except Exception as e:  # noqa
                    ctx.disagree("Metadata._match_v2 raised", {"sizes": sizes, "pl": pl, "files": ["/".join(c) for c in comps], "tamper": tamper},
                                 "a trace", f"{type(e).__name__}: {e}")
                    continue
            finally:
                rb.copypath = real_copy
                os.listdir = real_listdir
                if "cb" in rb.Metadata.__dict__:
                    del rb.Metadata.cb
            fmf = ";".join(hx(nm) + "=" + ",".join(hx(loc) + ":" + oracle.read(loc).hex() for loc, _sz in cs)
                           for nm, cs in fm.items()) or "-"
            # the PROPERTY on this run, judged by the reference (C14: only verified copies; C13: a verifying candidate is placed)
            try:
                info = oracle.bdecode_strict(raw)[b"info"]
                lay = oracle.v2_layout(info)
                one = len(lay) == 1 and lay[0][0] == ("n",)
                recorded = {("n",) if one else ("n",) + c: (ln, rt) for c, ln, rt in lay}
            except Exception:  # noqa  (a tampered root of another type: the reference layout does not apply)
                recorded = None
            if recorded is not None and im != "none":
                desc = {"pl": pl, "files": "n (single file)" if single else ["/".join(c) for c in comps], "sizes": sizes,
                        "metafile": how, "tampered": tamper, "metafile_hex": raw.hex() if len(raw) < 1500 else raw[:700].hex() + "...",
                        "candidates": {os.path.relpath(loc, cdir): len(oracle.read(loc)) for cs in fm.values() for loc, _ in cs}}
                placed = set()
                for src, rel in calls:
                    content = oracle.read(src)
                    want = recorded.get(tuple(rel.split(os.sep)))
                    placed.add(tuple(rel.split(os.sep)))
                    if want is None:
                        ctx.fail("v2-copy-to-a-path-the-metafile-does-not-assign", desc, "copies only to paths of the file tree", rel)
                    elif len(content) != want[0]:
                        ctx.fail("v2-copied-file-length-differs", desc, "a copied candidate has exactly the recorded length",
                                 {"to": rel, "from": os.path.relpath(src, cdir), "size": len(content), "recorded_length": want[0]})
                    elif content and oracle.pieces_root(content) != want[1]:
                        ctx.fail("v2-unverified-copy", desc, "a copied candidate has the recorded pieces root",
                                 {"to": rel, "from": os.path.relpath(src, cdir), "size": len(content)})
                for rel, (ln, rt) in recorded.items():
                    if ln > 0 and isinstance(rt, bytes) and rel not in placed and \
                            any(sz == ln and oracle.pieces_root(oracle.read(loc)) == rt for loc, sz in fm.get(rel[-1], [])):
                        ctx.fail("v2-verifying-candidate-not-placed", desc, "an entry for which a verifying candidate is indexed is copied",
                                 {"entry": "/".join(rel), "recorded_length": ln})
            lines.append(("16384", str(mpl), raw.hex(), fmf))
            impl.append(im)
            descs.append({"pl": pl, "sizes": sizes, "files": "n (single file)" if single else ["/".join(c) for c in comps],
                          "metafile": how + (f", hybrid" if version == 3 else ""), "tampered": tamper, "candidates": sorted(kinds)})
            cl = ["match_v2 tie", "match_v2 tie: metafile by " + how] + ["match_v2 tie: candidate " + x for x in sorted(kinds)]
            if tamper:
                cl.append("match_v2 tie: " + tamper)
            if single:
                cl.append("match_v2 tie: single-file form")
            if 0 in sizes:
                cl.append("match_v2 tie: empty file")
            if not single and len({c[-1] for c in comps}) < k:
                cl.append("two files of the torrent share a file name")
            cl.append("match_v2 tie: " + ("no copy" if not calls else "every entry copied" if len(calls) == k else "some entries copied"))
            ctx.case(key=("matchv2", ci, pl, tuple(sizes), tuple(comps), tamper, im[:60]), classes=cl, nontrivial=sum(sizes) > 0,
                     sample=dict(descs[-1], copypath_calls=[(os.path.relpath(a, cdir), b) for a, b in calls][:6]) if ci == 4 else None)
            shutil.rmtree(cdir, ignore_errors=True)
    if not model_ok:
        return
    outs = modelrun.run("matchv2", lines)
    if outs is None:
        ctx.broken.append("extracted model driver (matchv2) failed to run")
        return
    for o, im, d in zip(outs, impl, descs):
        ctx.traces_validated += 1
        if o != im:
            ctx.disagree("Model/RebuildMeta.v extract + match_v2 (count | copypath trace) vs Metadata._match_v2", d, o[:400], im[:400])
