"""C15 -- piece-aligned v1 metafiles: padding entries account exactly for the pieces."""
import os

import core
import trees
from ref import oracle
from props import c01

GEN_FILES = []
EXTRA_TARGETS = ["Extract/ExtractHasher.vo"]
AREAS = ["hasher"]
RULE = ("model tie: extracted Coq model of Hasher with align=true and of the entry list (v1_entries) vs the real "
        "Hasher(align=True) and TorrentFile.assemble on the same size tuples (small scope: 1..4 files, sizes 0..6, pl 1..4, "
        "exhaustive in the thorough tier) and real-granularity cases; end to end: TorrentFile(align=True) and "
        "`create --align` on generated trees; the metafile is checked against the property directly: pad entry after a file iff "
        "the file does not end on a boundary, its length the exact gap, attr=p, every payload file starts on a piece boundary, "
        "pieces = SHA-1 hashing of the zero-padded stream, listed lengths account for exactly the recorded pieces, single file "
        "hashed alone.  Non-trivial = distinct and hits a boundary class.")
TRUSTED_BASE = c01.TRUSTED_BASE
ASSUMPTIONS = c01.ASSUMPTIONS


def entries_impl(tmp, sizes, pl):
    """info['files'] as produced by TorrentFile(align=True) on a flat directory of files with these sizes"""
    d = os.path.join(tmp, "p")
    tree = {(f"f{i:03d}",): c01.small_data(i, n) for i, n in enumerate(sizes)}
    trees.write_tree(d, tree)
    import shutil
    try:
        core.use_repo_in_process()
        from torrentfile import torrent
        t = trees.quiet(torrent.TorrentFile, path=d, piece_length=None, align=True, progress=0)
    finally:
        pass
    return t


def e2e(ctx):
    n = 40 if ctx.tier == "quick" else 600
    core.use_repo_in_process()
    from torrentfile.cli import execute
    with core.Scratch("vc15e_") as tmp:
        os.environ["HOME"] = tmp
        for i in range(n):
            pl = ctx.rng.choice([16384, 16384, 32768, 65536])
            tree, cl = trees.gen_tree(ctx.rng, pl)
            single = list(tree) == [()]
            root = os.path.join(tmp, f"c{i}", "payload.bin" if single else "payload")
            trees.write_tree(root, tree)
            out = os.path.join(tmp, f"c{i}", "o.torrent")
            via_cli = (i % 4 == 3)
            try:
                if via_cli:
                    trees.quiet(execute, ["create", "--align", "--piece-length", str(pl), "-o", out, "--prog", "0", root])
                    raw = oracle.read(out)
                else:
                    raw = trees.create("v1-align", root, out, pl)
            except Exception as e:  # noqa
                ctx.fail("create-raised", {"tree": trees.tree_summary(tree), "piece_length": pl, "cli": via_cli},
                         "a metafile", f"{type(e).__name__}: {e}")
                continue
            try:
                meta = oracle.bdecode_strict(raw)
            except Exception:  # noqa
                import pyben
                meta = c01._to_bytes(pyben.loads(raw))
            info = meta[b"info"]
            problems = []
            if single:
                data = oracle.read(root)
                if info.get(b"length") != len(data) or b"files" in info:
                    problems.append("single file: length/files wrong")
                stream = data
                order = None
            else:
                stream, off, order = b"", 0, []
                files = info.get(b"files", [])
                payload_listed = []
                for j, f in enumerate(files):
                    ln = f[b"length"]
                    is_pad = f.get(b"attr") == b"p"
                    if is_pad:
                        if j == 0 or files[j - 1].get(b"attr") == b"p":
                            problems.append(f"padding entry {j} does not follow a payload file")
                        gap = -off % pl
                        if ln != gap or ln == 0:
                            problems.append(f"padding entry {j} has length {ln}, gap to the next boundary is {gap}")
                        if f.get(b"path") != [b".pad", str(ln).encode()]:
                            problems.append(f"padding entry {j} path {f.get(b'path')}")
                        stream += bytes(ln)
                    else:
                        comps = tuple(c.decode() for c in f[b"path"])
                        if off % pl != 0:
                            problems.append(f"file {'/'.join(comps)} starts at offset {off}, not on a piece boundary")
                        p = os.path.join(root, *comps)
                        data = oracle.read(p) if os.path.isfile(p) else b""
                        if ln != len(data):
                            problems.append(f"file {'/'.join(comps)} listed with length {ln}, on disk {len(data)}")
                        stream += data
                        payload_listed.append(comps)
                        order.append(comps)
                    off += ln
                if sorted(payload_listed) != sorted(tree):
                    problems.append("payload entries differ from the files on disk")
                npieces = len(info.get(b"pieces", b"")) // 20
                if -(-off // pl) != npieces:
                    problems.append(f"listed lengths account for {-(-off // pl)} pieces, {npieces} recorded")
            if info.get(b"pieces") != b"".join(oracle.v1_pieces(stream, pl)):
                problems.append("pieces != SHA-1 hashing of the stream in which padding is zero bytes")
            if info.get(b"piece length") != pl:
                problems.append("piece length")
            if problems:
                ctx.fail("aligned-metafile", {"tree": trees.tree_summary(tree), "piece_length": pl, "cli": via_cli},
                         "C15", problems[:6])
            cl |= trees.classify_v1(tree, pl, order if order and set(order) == set(tree) else None)
            ctx.case(key=("e2e", i, tuple(sorted(trees.tree_summary(tree).items())), pl),
                     classes=["align " + c for c in sorted(cl)], nontrivial=bool(cl),
                     sample={"tree": trees.tree_summary(tree), "pl": pl} if i == 2 else None)


def entries_unit(ctx, model_ok):
    """TorrentFile.assemble's entry list vs the extracted v1_entries, on real creators with real piece lengths"""
    import modelrun
    cases = []
    for _ in range(25 if ctx.tier == "quick" else 300):
        pl = ctx.rng.choice([16384, 32768])
        k = ctx.rng.randrange(1, 6)
        pool = trees.boundary_sizes(pl)
        cases.append(([ctx.rng.choice(pool) for _ in range(k)], pl))
    lines, impl = [], []
    with core.Scratch("vc15u_") as tmp:
        for n, (sizes, pl) in enumerate(cases):
            d = os.path.join(tmp, f"p{n}")
            tree = {(f"f{i:03d}",): bytes(s) for i, s in enumerate(sizes)}
            trees.write_tree(d, tree)
            raw = trees.create("v1-align", d, os.path.join(tmp, f"o{n}.torrent"), pl)
            import pyben
            files = pyben.loads(raw)["info"]["files"]
            impl.append(",".join(("p" if f.get("attr") == "p" else "f") + str(f["length"]) for f in files) or "-")
            lines.append(("1", str(pl), ",".join(str(s) for s in sizes)))
            ctx.case(key=("entries", tuple(sizes), pl), classes=["entry list vs model"])
    if model_ok:
        outs = modelrun.run("entries", lines)
        if outs is None:
            ctx.broken.append("extracted model driver (entries) failed to run")
        else:
            for l, o, im in zip(lines, outs, impl):
                ctx.traces_validated += 1
                if o != im:
                    ctx.disagree("Model/Hasher.v v1_entries vs TorrentFile.assemble", {"pl": l[1], "sizes": l[2]}, o, im)


def run(ctx, model_ok):
    c01.unit_scope(ctx, True, model_ok)
    entries_unit(ctx, model_ok)
    e2e(ctx)


def replay(ctx, data):
    print(data)
    return 0
