"""C15 -- piece-aligned v1 metafiles: padding entries account exactly for the pieces."""
import os
import json

import core
import trees
import scale
import modelrun
from ref import oracle
from props import c01

GEN_FILES = ["GenFormulas.v"]
EXTRA_TARGETS = ["Extract/ExtractHasher.vo"]
AREAS = ["hasher"]
RULE = ("model tie: extracted Coq model of Hasher with align=true and of the entry list (v1_entries) vs the real "
        "Hasher(align=True) and TorrentFile.assemble on the same size tuples (small scope: 1..4 files, sizes 0..6, pl 1..4, "
        "exhaustive in the thorough tier) and real-granularity cases; end to end: TorrentFile(align=True) and "
        "`create --align` on generated trees; the metafile is checked against the property directly: pad entry after a file iff "
        "the file does not end on a boundary, its length the exact gap, attr=p, every payload file starts on a piece boundary, "
        "pieces = SHA-1 hashing of the zero-padded stream, listed lengths account for exactly the recorded pieces, single file "
        "hashed alone; routes in turn: library with progress 0|1|2 (fresh / assemble() again on the same object, tree unchanged / "
        "assemble() again after the payload changed, judged against the tree on disk at that moment) and the command line with "
        "--prog 0|1|2 and --quiet.  Payloads AT SCALE (harness/scale.py; end to end only, never sent to the model): piece lengths "
        "2 .. 16 MiB with files of 1 .. 26 MiB aimed at read windows of 1 / 4 / 8 MiB (a short file after a piece that had data in "
        "its later windows, file sizes that are multiples of 1 MiB but not of the piece length, more than 1 / 4 / 8 MiB of padding, "
        "tails one byte either side of a piece) and one 65 MiB file with 32 MiB pieces; every such tree goes through the library "
        "(fresh, progress 0|1|2 in turn) AND through `create --align` (--prog 0|1|2 / --quiet in turn, --piece-length spelled as "
        "the exponent 21..25 or in bytes in turn), every third also through assemble() again on the unchanged tree, every third "
        "through assemble() again after the payload changed; all templates in the quick tier, 40 trees (templates, then random "
        "sizes k MiB + r) in the thorough tier; same judge.  The generated trees (trees.gen_tree) carry decomposed (NFD) Unicode names, "
        "names with the glob metacharacters * ? [ ] and mixed-case siblings (classes 'name: ...').  "
        "Non-trivial = distinct and hits a boundary class.")
TRUSTED_BASE = c01.TRUSTED_BASE
ASSUMPTIONS = c01.ASSUMPTIONS


def entries_impl(tmp, sizes, pl):
    """info['files'] as produced by TorrentFile(align=True) on a flat directory of files with these sizes"""
    d = os.path.join(tmp, "p")
    tree = {(f"f{i:03d}",): c01.small_data(i, n) for i, n in enumerate(sizes)}
    trees.write_tree(d, tree)
    import shutil
    try:
        core.use_repo_in_process()
        from torrentfile import torrent
        t = trees.quiet(torrent.TorrentFile, path=d, piece_length=None, align=True, progress=0)
    finally:
        pass
    return t


def judge_metafile(raw, root, tree, pl, single):
    """the property on one written metafile, against the files as they are on disk; returns (problems, order of the payload entries)"""
    try:
        meta = oracle.bdecode_strict(raw)
    except Exception:  # noqa
        import pyben
        meta = c01._to_bytes(pyben.loads(raw))
    info = meta[b"info"]
    problems = []
    if single:
        data = oracle.read(root)
        if info.get(b"length") != len(data) or b"files" in info:
            problems.append("single file: length/files wrong")
        stream = data
        order = None
    else:
        stream, off, order = b"", 0, []
        files = info.get(b"files", [])
        payload_listed = []
        for j, f in enumerate(files):
            ln = f[b"length"]
            is_pad = f.get(b"attr") == b"p"
            if is_pad:
                if j == 0 or files[j - 1].get(b"attr") == b"p":
                    problems.append(f"padding entry {j} does not follow a payload file")
                gap = -off % pl
                if ln != gap or ln == 0:
                    problems.append(f"padding entry {j} has length {ln}, gap to the next boundary is {gap}")
                if f.get(b"path") != [b".pad", str(ln).encode()]:
                    problems.append(f"padding entry {j} path {f.get(b'path')}")
                stream += bytes(ln)
            else:
                comps = tuple(c.decode() for c in f[b"path"])
                if off % pl != 0:
                    problems.append(f"file {'/'.join(comps)} starts at offset {off}, not on a piece boundary")
                p = os.path.join(root, *comps)
                data = oracle.read(p) if os.path.isfile(p) else b""
                if ln != len(data):
                    problems.append(f"file {'/'.join(comps)} listed with length {ln}, on disk {len(data)}")
                stream += data
                payload_listed.append(comps)
                order.append(comps)
            off += ln
        if sorted(payload_listed) != sorted(tree):
            problems.append("payload entries differ from the files on disk")
        npieces = len(info.get(b"pieces", b"")) // 20
        if -(-off // pl) != npieces:
            problems.append(f"listed lengths account for {-(-off // pl)} pieces, {npieces} recorded")
    if info.get(b"pieces") != b"".join(oracle.v1_pieces(stream, pl)):
        problems.append("pieces != SHA-1 hashing of the stream in which padding is zero bytes")
    if info.get(b"piece length") != pl:
        problems.append("piece length")
    return problems, order


def run_route(inp, root, out, before, tree):
    """write the aligned metafile of the payload at root through the recorded route (c01.route_name): the command line with
       --prog 0|1|2 / --quiet, or TorrentFile(align=True, progress=0|1|2) -- fresh, or with the public assemble() called again
       on the same object (tree unchanged / tree changed from `before` to `tree` in between); returns the bytes"""
    from torrentfile.cli import execute
    pl = inp["piece_length"]
    if inp.get("cli"):
        # the piece length is spelled in bytes, or -- where recorded -- as the exponent
        spelled = str(inp.get("piece_length_argument", pl))
        trees.quiet(execute, c01.cli_argv(inp.get("progress", "0"), ["--align", "--piece-length", spelled, "-o", out, root]))
        return oracle.read(out)
    re = inp.get("reassemble")
    return trees.create("v1-align", root, out, pl, progress=inp.get("progress", 0),
                        reassemble=(lambda: trees.rewrite_tree(root, before, tree)) if re == "changed" else bool(re))


def e2e(ctx):
    import shutil
    n = 40 if ctx.tier == "quick" else 600
    core.use_repo_in_process()
    with core.Scratch("vc15e_") as tmp:
        os.environ["HOME"] = tmp
        for i in range(n):
            pl = ctx.rng.choice([16384, 16384, 32768, 65536])
            tree, cl = trees.gen_tree(ctx.rng, pl)
            single = list(tree) == [()]
            root = os.path.join(tmp, f"c{i}", "payload.bin" if single else "payload")
            trees.write_tree(root, tree)
            out = os.path.join(tmp, f"c{i}", "o.torrent")
            # routes as in C01: command line (--prog 0|1|2, --quiet) every fourth case; library with progress 0|1|2 and
            # fresh / re-assembled on the unchanged tree / re-assembled after the payload changed
            via_cli = (i % 4 == 3)
            progress = c01.CLI_PROGRESS[(i // 4) % len(c01.CLI_PROGRESS)] if via_cli else (i // 4) % 3
            reassemble = None if via_cli else c01.REASSEMBLE[i % 4]
            before, how = tree, None
            if reassemble == "changed":
                tree, how = trees.mutate_tree(ctx.rng, before, pl)
            inp = {"tree": trees.tree_summary(tree), "piece_length": pl, "cli": via_cli, "progress": progress,
                   "reassemble": reassemble}
            if how:
                inp.update(tree_at_construction=trees.tree_summary(before), change=how)
            one_route(ctx, i, inp, root, out, before, tree, cl, "")
        # payloads at scale (harness/scale.py): piece lengths 2 .. 32 MiB, file sizes aimed at 1 / 4 / 8 MiB read windows.  Every
        # tree goes through the library AND the command line (the aimed shape is judged as it is on both), some of them also
        # through assemble() again -- unchanged, or after the payload changed (that one last: it rewrites the tree)
        for j in range(len(scale.TEMPLATES) + 1 if ctx.tier == "quick" else 40):
            pl, tree, cl = scale.gen(ctx.rng, j, thorough=True)
            single = list(tree) == [()]
            root = os.path.join(tmp, f"s{j}", "payload.bin" if single else "payload")
            trees.write_tree(root, tree)
            base = {"piece_length": pl, "scale": True}
            routes = [dict(base, cli=False, progress=(j + 1) % 3, reassemble=None),
                      dict(base, cli=True, progress=c01.CLI_PROGRESS[(j + 2) % 4], reassemble=None,
                           piece_length_argument=str(pl.bit_length() - 1) if j % 2 == 0 else str(pl))]
            if j % 3 == 1:
                routes.append(dict(base, cli=False, progress=j % 3, reassemble="unchanged"))
            if j % 3 == 2:
                routes.append(dict(base, cli=False, progress=j % 3, reassemble="changed"))
            for r, inp in enumerate(routes):
                before = tree
                if inp["reassemble"] == "changed":
                    tree, how = trees.mutate_tree(ctx.rng, before, pl)
                    inp.update(tree_at_construction=trees.tree_summary(before), change=how)
                    cl = {c for c in cl if c.startswith("scale: piece length")}      # the aimed shape is gone
                inp["tree"] = trees.tree_summary(tree)
                one_route(ctx, SCALE0 + 10 * j + r, inp, root, os.path.join(tmp, f"s{j}", f"o{r}.torrent"), before, tree, set(cl),
                          "scale: ")
            shutil.rmtree(os.path.join(tmp, f"s{j}"), ignore_errors=True)


SCALE0 = c01.SCALE0     # end-to-end case numbers from here on are the cases at scale (10 * tree number + route number)


def one_route(ctx, i, inp, root, out, before, tree, cl, prefix):
    """one end-to-end case: the payload at root (written from `before`) through the route of inp, judged against `tree`"""
    pl, single = inp["piece_length"], list(tree) == [()]
    via_cli, progress, reassemble = inp["cli"], inp["progress"], inp["reassemble"]
    try:
        raw = run_route(inp, root, out, before, tree)
    except (Exception, SystemExit) as e:  # noqa
        ctx.fail("create-raised", inp, "a metafile", f"{type(e).__name__}: {e}")
        return
    problems, order = judge_metafile(raw, root, tree, pl, single)
    if problems:
        ctx.fail("aligned-metafile", inp, "C15", problems[:6])
    cl = cl | trees.classify_v1(tree, pl, order if order and set(order) == set(tree) else None)
    # the classes of a tree at scale are counted apart from those of the small trees
    ctx.case(key=("e2e", i, tuple(sorted(trees.tree_summary(tree).items())), pl),
             classes=[c if c.startswith("scale: ") else prefix + "align " + c for c in sorted(cl)]
             + [f"{prefix}route: {'cli' if via_cli else 'library'} progress {progress}"]
             + ([f"{prefix}route: assemble() again, tree {reassemble}"] if reassemble else [])
             + ([prefix + "--piece-length given as " + ("the exponent" if int(inp["piece_length_argument"]) < 64 else "bytes")]
                if "piece_length_argument" in inp else []), nontrivial=bool(cl),
             sample={"tree": trees.tree_summary(tree), "pl": pl} if i == 2 else None)


def entries_unit(ctx, model_ok):
    """TorrentFile.assemble's entry list vs the extracted v1_entries, on real creators with real piece lengths"""
    import modelrun
    cases = []
    for _ in range(25 if ctx.tier == "quick" else 300):
        pl = ctx.rng.choice([16384, 32768])
        k = ctx.rng.randrange(1, 6)
        pool = trees.boundary_sizes(pl)
        cases.append(([ctx.rng.choice(pool) for _ in range(k)], pl))
    lines, impl = [], []
    with core.Scratch("vc15u_") as tmp:
        for n, (sizes, pl) in enumerate(cases):
            d = os.path.join(tmp, f"p{n}")
            tree = {(f"f{i:03d}",): bytes(s) for i, s in enumerate(sizes)}
            trees.write_tree(d, tree)
            raw = trees.create("v1-align", d, os.path.join(tmp, f"o{n}.torrent"), pl)
            import pyben
            files = pyben.loads(raw)["info"]["files"]
            impl.append(",".join(("p" if f.get("attr") == "p" else "f") + str(f["length"]) for f in files) or "-")
            lines.append(("1", str(pl), ",".join(str(s) for s in sizes)))
            ctx.case(key=("entries", tuple(sizes), pl), classes=["entry list vs model"])
    if model_ok:
        outs = modelrun.run("entries", lines)
        if outs is None:
            ctx.broken.append("extracted model driver (entries) failed to run")
        else:
            for l, o, im in zip(lines, outs, impl):
                ctx.traces_validated += 1
                if o != im:
                    ctx.disagree("Model/Hasher.v v1_entries vs TorrentFile.assemble", {"pl": l[1], "sizes": l[2]}, o, im)


def run(ctx, model_ok):
    c01.unit_scope(ctx, True, model_ok)
    entries_unit(ctx, model_ok)
    e2e(ctx)


# --------------------------------------------------------------------------- replay
def tree_from_summary(summary):
    """trees.tree_summary -> tree; the contents (random per run in the search) are regenerated from (index, size): the judge
       compares the metafile with reference hashing of the same bytes on disk, so only names and sizes matter"""
    import random
    tree = {}
    for i, (name, size) in enumerate(sorted(summary.items())):
        comps = () if name == "<single>" else tuple(name.split("/"))
        tree[comps] = random.Random(f"C15:{i}:{size}").randbytes(size)
    return tree


def _replay_e2e(inp, tmp):
    core.use_repo_in_process()
    tree, pl = tree_from_summary(inp["tree"]), inp["piece_length"]
    before = tree
    if inp.get("reassemble") == "changed":
        # the tree the creator was constructed on: files that kept their size keep their bytes
        before = tree_from_summary(inp["tree_at_construction"])
        by_name = {(k, len(v)): v for k, v in tree.items()}
        before = {k: by_name.get((k, len(v)), v) for k, v in before.items()}
    single = list(tree) == [()]
    root = os.path.join(tmp, "c", "payload.bin" if single else "payload")
    trees.write_tree(root, before)
    out = os.path.join(tmp, "c", "o.torrent")
    print(f"[C15 replay] tree {json.dumps(inp['tree'], ensure_ascii=False)}, piece length {pl}, "
          + c01.route_name(dict(inp, cli=bool(inp.get("cli"))), "TorrentFile(align=True, ").replace(" create ", " create --align ")
          + (f"; tree at construction {json.dumps(inp['tree_at_construction'], ensure_ascii=False)}" if before is not tree else ""))
    try:
        raw = run_route(inp, root, out, before, tree)
    except (Exception, SystemExit) as e:  # noqa
        print(f"[C15 replay] VIOLATION create-raised: {type(e).__name__}: {e}")
        return 1
    problems, _ = judge_metafile(raw, root, tree, pl, single)
    try:
        import pyben
        info = pyben.loads(raw)["info"]
        listed = [("pad " if f.get("attr") == "p" else "/".join(f["path"]) + " ") + str(f["length"]) for f in info.get("files", [])]
        print(f"[C15 replay] implementation: entries {listed or ['single file, length ' + str(info.get('length'))]}, "
              f"{len(info['pieces']) // 20} pieces")
    except Exception as e:  # noqa
        print("[C15 replay] implementation: metafile not readable by pyben:", e)
    for pr in problems:
        print("[C15 replay] VIOLATION aligned-metafile:", pr)
    if not problems:
        print("[C15 replay] judge: pad entries are exactly the gaps, every file starts on a boundary, pieces = reference hashing of the padded stream")
    return 1 if problems else 0


def _replay_hasher(sizes, pl, align, tmp, with_model):
    datas = [c01.small_data(i, s) for i, s in enumerate(sizes)]
    d = os.path.join(tmp, f"h{len(os.listdir(tmp))}")
    os.makedirs(d)
    try:
        got = c01.hasher_impl(d, sizes, pl, align, datas)
    except Exception as e:  # noqa
        print(f"[C15 replay] VIOLATION Hasher raised on sizes {sizes}, piece length {pl}: {type(e).__name__}: {e}")
        return 1
    exp = c01.ref_v1(datas, pl, align)
    print(f"[C15 replay] Hasher(align={align}) on sizes {sizes}, piece length {pl}:\n   implementation {[h.hex() for h in got][:8]}\n"
          f"   reference      {[h.hex() for h in exp][:8]}")
    rc = 0
    if got != exp:
        print("[C15 replay] VIOLATION hasher-vs-bep3-align: digests differ from the reference hashing of the zero-padded stream")
        rc = 1
    if with_model:
        outs = modelrun.run("hasher", [("1" if align else "0", str(pl), ",".join(x.hex() for x in datas))])
        if outs is None:
            print("[C15 replay] cannot evaluate: the extracted hasher driver failed to run (./check --setup)")
            return rc or 2
        same = outs[0] == b"".join(got).hex()
        print("[C15 replay] Model/Hasher.v: " + ("model and implementation agree" if same else f"model and implementation DISAGREE (model {outs[0][:120]})"))
        rc = rc or (0 if same else 1)
    return rc


def _replay_entries(sizes, pl, tmp):
    d = os.path.join(tmp, f"p{len(os.listdir(tmp))}")
    trees.write_tree(d, {(f"f{i:03d}",): bytes(s) for i, s in enumerate(sizes)})
    try:
        raw = trees.create("v1-align", d, d + ".torrent", pl)
        import pyben
        files = pyben.loads(raw)["info"]["files"]
    except Exception as e:  # noqa
        print(f"[C15 replay] VIOLATION create-raised on sizes {sizes}, piece length {pl}: {type(e).__name__}: {e}")
        return 1
    impl = ",".join(("p" if f.get("attr") == "p" else "f") + str(f["length"]) for f in files) or "-"
    outs = modelrun.run("entries", [("1", str(pl), ",".join(str(x) for x in sizes))])
    if outs is None:
        print("[C15 replay] cannot evaluate: the extracted hasher driver failed to run (./check --setup)")
        return 2
    print(f"[C15 replay] entry list for sizes {sizes}, piece length {pl}:\n   TorrentFile.assemble {impl}\n   Model v1_entries     {outs[0]}")
    print("[C15 replay] " + ("model and implementation agree" if outs[0] == impl else "model and implementation DISAGREE"))
    return 0 if outs[0] == impl else 1


def replay(ctx, data):
    """rebuilds the recorded tree / size tuple, runs creator (or Hasher), reference and model again; 1 violated, 0 holds, 2 cannot rebuild"""
    from props import c17
    kind = str(data.get("kind"))
    inp = data.get("input") if isinstance(data.get("input"), dict) else {}
    print(f"[C15 replay] kind={kind} implementation under test: {core.REPO}")
    rcs = []

    def cannot(k, why):
        print(f"replay: cannot rebuild input of kind {k} ({why})")
        return 2
    with core.Scratch("vc15r_") as tmp:
        os.environ["HOME"] = tmp
        if data.get("finding") or data.get("reproducer"):
            rcs.append(c17.replay_finding("C15", data))
        elif kind in ("aligned-metafile", "create-raised"):
            if not isinstance(inp.get("tree"), dict) or "piece_length" not in inp:
                rcs.append(cannot(kind, "no tree description recorded"))
            else:
                rcs.append(_replay_e2e(inp, tmp))
        elif kind.startswith("hasher-vs-bep3"):
            if "sizes" not in inp or "piece_length" not in inp:
                rcs.append(cannot(kind, "no size tuple recorded"))
            else:
                rcs.append(_replay_hasher(list(inp["sizes"]), inp["piece_length"], bool(inp.get("align", True)), tmp, with_model=False))
        elif kind == "proof-or-correspondence-broken" or "what" in data:
            dis = data.get("disagreements") or ([data] if "what" in data else [])
            for d in dis[:5]:
                di = d.get("input") if isinstance(d.get("input"), dict) else {}
                what = str(d.get("what", ""))
                if what.startswith("Model/Hasher.v vs hasher.Hasher") and "files_hex" in di:
                    if len(di["files_hex"]) >= 200:
                        rcs.append(cannot("disagreement Model/Hasher.v vs hasher.Hasher", "the recorded file contents are truncated to 100 bytes"))
                        continue
                    sizes = [len(x) // 2 for x in di["files_hex"].split(",")]
                    rcs.append(_replay_hasher(sizes, int(di["pl"]), di.get("align") == "1", tmp, with_model=True))
                elif what.startswith("Model/Hasher.v v1_entries") and "sizes" in di:
                    rcs.append(_replay_entries([int(x) for x in di["sizes"].split(",")], int(di["pl"]), tmp))
                else:
                    rcs.append(cannot("disagreement " + repr(what), "unknown correspondence"))
            if data.get("broken"):
                rcs.append(c17.replay_broken(ctx, "C15", data["broken"]))
            if not dis and not data.get("broken"):
                print("[C15 replay] the file records neither a disagreement nor a broken obligation: nothing to replay")
                rcs.append(2)
        else:
            rcs.append(cannot(kind, "unknown kind"))
    rc = 1 if 1 in rcs else (2 if 2 in rcs or not rcs else 0)
    print("[C15 replay] verdict:", {0: "the property holds on this input", 1: "property VIOLATED on this input",
                                    2: "could not be replayed exactly"}[rc])
    return rc
