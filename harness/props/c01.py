"""C01 -- v1 piece string is the BEP 3 hashing of exactly the files on disk."""
import os
import hashlib
import itertools

import core
import trees
import modelrun
from ref import oracle

GEN_FILES = []
EXTRA_TARGETS = ["Extract/ExtractHasher.vo", "Extract/ExtractCreators.vo"]
AREAS = ["hasher", "creators"]
CREATOR_KINDS = ["v1", "v1-align"]
# Appendix B "creators" classes that concern the v1 creator (shared roots / piece layers do not exist in a v1 metafile)
CREATOR_CLASSES = ["single file", "flat", "nested", "full-path order != per-directory order", "empty directory present"]
RULE = ("model tie: the extracted Coq model of Hasher (hasher_inputs) vs the real Hasher iterator on the same file-size "
        "tuples -- small scope (1..4 files, sizes 0..6, piece length 1..4; exhaustive in the thorough tier, sampled in quick) "
        "and generated real-granularity cases; unit correspondence of Model/Creators.v (create_v1 = MetaFile.__init__, "
        "utils._filelist_total, TorrentFile.assemble, sort_meta; the creator-level theorems rest on it): TorrentFile with align "
        "False and True writes a metafile for generated content trees (single file / flat / nested to depth 3 / a directory next "
        "to a sibling whose name sorts between it and its children / identical files / multi-piece files / empty directories / "
        "names differing only in case / non-ASCII names; sizes from {0,1,B+-1,B,pl+-1,pl,2pl+-1,...}), an option subset, one of 25 "
        "spellings of the path, a patched clock and the enumeration order of every directory fixed by a runner-side patch of "
        "os.listdir/os.scandir and handed to the model as the order of its entry lists -- the extracted create_v1 composed with "
        "Model/Bencode.v encode predicts the BYTES of the written file, compared byte for byte; utils.filelist_total (total and "
        "order of the listed files) vs the extracted filelist_total; end to end: TorrentFile(...) and `torrentfile create` on generated trees "
        "(1..7 files, depth <= 3, sizes from the boundary set {0,1,B-1,B,B+1,pl-1,pl,pl+1,k*pl+-1,...} plus random), the written "
        "metafile is decoded by the reference strict decoder and files/length/piece length/pieces are compared with reference BEP 3 "
        "hashing of the tree as it is on disk.  A case is non-trivial when it is distinct and hits at least one boundary class.")
TRUSTED_BASE = [
    "Coq 8.16.1 kernel; theorems closed under the global context; SHA-1 is an arbitrary function H1 in every theorem",
    "hand-written model Model/Hasher.v tied to hasher.py by differential execution (extracted OCaml vs the real iterator)",
    "hand-written models Model/Creators.v (create_v1, filelist_total), Model/Bencode.v (pyben's encoder) and Spec/PathSem.v (name and "
    "path components from the path string) tied to torrent.py / utils.py by differential execution: extracted OCaml vs the bytes "
    "TorrentFile(...).write() produces, under a controlled enumeration order (runner-side patch of os.listdir/os.scandir), a patched "
    "clock (torrentfile.torrent.datetime) and, for cases marked patched_constant, a patched torrentfile.hasher.BLOCK_SIZE",
    "extraction: ExtrOcamlBasic, ExtrOcamlString; OCaml SHA-1 (ocaml/sha.ml, self-tested against hashlib) for the correspondence only",
    "os.listdir/readinto/getsize on regular files behave as specified; no concurrent writer",
]
ASSUMPTIONS = ["no symlinks or special files in the content tree (excluded by the property)",
               "file names are valid UTF-8 without '/' (a Python str is collapsed to its UTF-8 bytes; code-point order = byte order)",
               "the payload contains at least one file (Hasher([]) raises; excluded by the creator-level theorems via has_file)",
               "independence of the enumeration order / path spelling is C08's subject; here the order is an input of model and code alike"]


def hasher_impl(tmp, sizes, pl, align, datas=None):
    """run the real Hasher on files of the given sizes; returns list of digests"""
    core.use_repo_in_process()
    from torrentfile.hasher import Hasher
    paths = []
    for i, n in enumerate(sizes):
        p = os.path.join(tmp, f"f{i:03d}")
        with open(p, "wb") as fd:
            fd.write(datas[i] if datas else bytes((i * 37 + j * 11 + 1) % 251 for j in range(n)))
        paths.append(p)
    h = trees.quiet(Hasher, paths, pl, align=align, progress=0,
                    progress_bar=_NoProg())
    return [bytes(x) for x in trees.quiet(list, h)]


class _NoProg:
    def update(self, *_):
        pass

    def close_out(self):
        pass


def small_data(i, n):
    return bytes((i * 37 + j * 11 + 1) % 251 for j in range(n))


def ref_v1(datas, pl, align):
    if align and len(datas) >= 1:
        stream = b"".join(d + bytes(-len(d) % pl) for d in datas)
    else:
        stream = b"".join(datas)
    return oracle.v1_pieces(stream, pl)


def unit_scope(ctx, align, model_ok):
    """Hasher vs reference vs extracted model on small scopes and generated cases"""
    cases = []
    if ctx.tier == "thorough":
        for k in range(1, 5):
            for sizes in itertools.product(range(0, 7), repeat=k):
                for pl in range(1, 5):
                    cases.append((list(sizes), pl))
        ctx.exhaustive = True
    else:
        for k in range(1, 4):
            for sizes in itertools.product((0, 1, 2, 3, 5), repeat=k):
                for pl in (1, 2, 3):
                    cases.append((list(sizes), pl))
        for _ in range(150):
            k = ctx.rng.randrange(1, 6)
            cases.append(([ctx.rng.randrange(0, 8) for _ in range(k)], ctx.rng.randrange(1, 6)))
    # real-granularity cases
    for _ in range(12 if ctx.tier == "quick" else 120):
        pl = ctx.rng.choice([16384, 32768])
        k = ctx.rng.randrange(1, 6)
        pool = trees.boundary_sizes(pl)
        cases.append(([ctx.rng.choice(pool) if ctx.rng.random() < 0.8 else ctx.rng.randrange(0, 2 * pl) for _ in range(k)], pl))
    lines = []
    with core.Scratch("vc01u_") as tmp:
        for n, (sizes, pl) in enumerate(cases):
            datas = [small_data(i, s) for i, s in enumerate(sizes)]
            got = hasher_impl(tmp, sizes, pl, align, datas)
            exp = ref_v1(datas, pl, align)
            if align and len(sizes) == 1:
                pass   # Hasher itself pads a single file when align=True; the creator forces align=False (checked e2e)
            if got != exp:
                ctx.fail("hasher-vs-bep3" + ("-align" if align else ""), {"sizes": sizes, "piece_length": pl, "align": align},
                         [h.hex() for h in exp][:8], [h.hex() for h in got][:8])
            tree = {(f"f{i:03d}",): d for i, d in enumerate(datas)}
            cl = trees.classify_v1(tree, pl)
            ctx.case(key=("unit", align, tuple(sizes), pl), classes=[("align " if align else "") + c for c in cl],
                     nontrivial=bool(cl), sample={"sizes": sizes, "pl": pl, "align": align} if n == 7 else None)
            lines.append(("hasher", "1" if align else "0", str(pl), ",".join(d.hex() for d in datas), b"".join(got).hex()))
    if model_ok:
        outs = modelrun.run("hasher", [l[1:4] for l in lines])
        if outs is None:
            ctx.broken.append("extracted model driver for Hasher failed to run")
        else:
            for l, o in zip(lines, outs):
                ctx.traces_validated += 1
                if o != l[4]:
                    ctx.disagree("Model/Hasher.v vs hasher.Hasher", {"align": l[1], "pl": l[2], "files_hex": l[3][:200]},
                                 o[:120], l[4][:120])


def e2e(ctx):
    n = 40 if ctx.tier == "quick" else 600
    core.use_repo_in_process()
    from torrentfile.cli import execute
    with core.Scratch("vc01e_") as tmp:
        os.environ["HOME"] = tmp
        for i in range(n):
            pl = ctx.rng.choice([16384, 16384, 32768, 65536])
            tree, cl = trees.gen_tree(ctx.rng, pl)
            single = list(tree) == [()]
            root = os.path.join(tmp, f"c{i}", "payload.bin" if single else "payload")
            trees.write_tree(root, tree)
            out = os.path.join(tmp, f"c{i}", "o.torrent")
            via_cli = (i % 4 == 3)
            try:
                if via_cli:
                    trees.quiet(execute, ["create", "--piece-length", str(pl), "-o", out, "--prog", "0", root])
                    raw = oracle.read(out)
                else:
                    raw = trees.create("v1", root, out, pl)
            except Exception as e:  # noqa
                ctx.fail("create-raised", {"tree": trees.tree_summary(tree), "piece_length": pl, "cli": via_cli},
                         "a metafile", f"{type(e).__name__}: {e}")
                continue
            try:
                meta = oracle.bdecode_strict(raw)
            except Exception:  # noqa  canonical form is C06's business; read leniently here
                import pyben
                meta = _to_bytes(pyben.loads(raw))
            info = meta[b"info"]
            problems = []
            if info.get(b"piece length") != pl:
                problems.append(f"piece length {info.get(b'piece length')} != {pl}")
            disk = oracle.walk_tree(root)
            if single:
                data = oracle.read(root)
                if b"files" in info:
                    problems.append("single file has a files list")
                if info.get(b"length") != len(data):
                    problems.append(f"length {info.get(b'length')} != {len(data)}")
                stream = data
            else:
                listed = [(tuple(c.decode() for c in f[b"path"]), f[b"length"]) for f in info.get(b"files", [])]
                want = sorted((comps, os.path.getsize(p)) for comps, p in disk)
                if sorted(listed) != want:
                    problems.append(f"file list differs from disk: listed {sorted(listed)[:6]} disk {want[:6]}")
                stream = b"".join(oracle.read(os.path.join(root, *comps)) if os.path.isfile(os.path.join(root, *comps)) else b""
                                  for comps, _ in listed)
            exp = b"".join(oracle.v1_pieces(stream, pl))
            if info.get(b"pieces") != exp:
                problems.append("pieces != SHA-1 of successive piece-length slices of the listed files")
            if problems:
                ctx.fail("v1-metafile", {"tree": trees.tree_summary(tree), "piece_length": pl, "cli": via_cli},
                         "BEP 3", problems)
            order = None if single else [tuple(c.decode() for c in f[b"path"]) for f in info.get(b"files", [])]
            cl |= trees.classify_v1(tree, pl, order if order and set(order) == set(tree) else None)
            ctx.case(key=("e2e", i, tuple(sorted(trees.tree_summary(tree).items())), pl), classes=sorted(cl),
                     nontrivial=bool(cl), sample={"tree": trees.tree_summary(tree), "pl": pl} if i == 2 else None)


def _to_bytes(v):
    if isinstance(v, str):
        return v.encode()
    if isinstance(v, (bytes, bytearray)):
        return bytes(v)
    if isinstance(v, list):
        return [_to_bytes(x) for x in v]
    if isinstance(v, dict):
        return {_to_bytes(k): _to_bytes(x) for k, x in v.items()}
    return v


def run(ctx, model_ok):
    from props import creators_common as cc
    unit_scope(ctx, False, model_ok)
    quick = ctx.tier == "quick"
    cc.unit_for(ctx, model_ok, CREATOR_KINDS, n=180 if quick else 1440, budget=90000 if quick else 300000,
                required=CREATOR_CLASSES)
    e2e(ctx)


def replay(ctx, data):
    from props import creators_common as cc
    if data.get("disagreements") or data.get("broken") or "what" in data:
        return cc.replay_disagreements(ctx, data, "C01")
    print(data)
    return 0
