"""C01 -- v1 piece string is the BEP 3 hashing of exactly the files on disk."""
import os
import hashlib
import itertools

import core
import trees
import scale
import modelrun
from ref import oracle

GEN_FILES = []
EXTRA_TARGETS = ["Extract/ExtractHasher.vo", "Extract/ExtractCreators.vo"]
AREAS = ["hasher", "creators"]
CREATOR_KINDS = ["v1", "v1-align"]
# Appendix B "creators" classes that concern the v1 creator (shared roots / piece layers do not exist in a v1 metafile)
CREATOR_CLASSES = ["single file", "flat", "nested", "full-path order != per-directory order", "empty directory present"] + \
    trees.NAME_CLASSES
RULE = ("model tie: the extracted Coq model of Hasher (hasher_inputs) vs the real Hasher iterator on the same file-size "
        "tuples -- small scope (1..4 files, sizes 0..6, piece length 1..4; exhaustive in the thorough tier, sampled in quick) "
        "and generated real-granularity cases; unit correspondence of Model/Creators.v (create_v1 = MetaFile.__init__, "
        "utils._filelist_total, TorrentFile.assemble, sort_meta; the creator-level theorems rest on it): TorrentFile with align "
        "False and True writes a metafile for generated content trees (single file / flat / nested to depth 3 / a directory next "
        "to a sibling whose name sorts between it and its children / identical files / multi-piece files / empty directories / "
        "names differing only in case / non-ASCII names; sizes from {0,1,B+-1,B,pl+-1,pl,2pl+-1,...}), an option subset, one of 25 "
        "spellings of the path, a patched clock and the enumeration order of every directory fixed by a runner-side patch of "
        "os.listdir/os.scandir and handed to the model as the order of its entry lists -- the extracted create_v1 composed with "
        "Model/Bencode.v encode predicts the BYTES of the written file, compared byte for byte; utils.filelist_total (total and "
        "order of the listed files) vs the extracted filelist_total; end to end: TorrentFile(...) and `torrentfile create` on generated trees "
        "(1..7 files, depth <= 3, sizes from the boundary set {0,1,B-1,B,B+1,pl-1,pl,pl+1,k*pl+-1,...} plus random), the written "
        "metafile is decoded by the reference strict decoder and files/length/piece length/pieces are compared with reference BEP 3 "
        "hashing of the tree as it is on disk.  Routes of the end-to-end cases in turn: library with progress 0|1|2 -- a fresh create, the "
        "public assemble() called AGAIN on the same object before write() with the tree unchanged, and assemble() again after one "
        "file grew / shrank / was added / was removed (judged against the tree on disk at that moment) -- and the command line with "
        "--prog 0|1|2 and --quiet; a third of the unit-correspondence cases are re-assembled too.  Names include runs of dots inside "
        "a name (wait....bin, disc..2, ..hidden, a..), decomposed (NFD) Unicode names (cafe + U+0301, a directory A + U+030A next to a "
        "sibling B: composed it would sort after B), names with the glob metacharacters * ? [ ] ('Album [FLAC]/cd[1]', 'a*b' next to "
        "'aXb') and mixed-case siblings (README.txt next to data.bin) -- in the shared pools and as aimed groups (trees.add_aimed_names; "
        "flavour 'names' of the unit correspondence); the payload itself is named in turn payload / 'Album [FLAC]' / a decomposed "
        "name / 'pay*load?' / PayLoad.D: every name must be listed byte for byte as it is on disk, in raw string order.  "
        "A case is non-trivial when it is distinct and hits at least one boundary class.")
TRUSTED_BASE = [
    "Coq 8.16.1 kernel; theorems closed under the global context; SHA-1 is an arbitrary function H1 in every theorem",
    "hand-written model Model/Hasher.v tied to hasher.py by differential execution (extracted OCaml vs the real iterator)",
    "hand-written models Model/Creators.v (create_v1, filelist_total), Model/Bencode.v (pyben's encoder) and Spec/PathSem.v (name and "
    "path components from the path string) tied to torrent.py / utils.py by differential execution: extracted OCaml vs the bytes "
    "TorrentFile(...).write() produces, under a controlled enumeration order (runner-side patch of os.listdir/os.scandir), a patched "
    "clock (torrentfile.torrent.datetime) and, for cases marked patched_constant, a patched torrentfile.hasher.BLOCK_SIZE",
    "extraction: ExtrOcamlBasic, ExtrOcamlString; OCaml SHA-1 (ocaml/sha.ml, self-tested against hashlib) for the correspondence only",
    "os.listdir/readinto/getsize on regular files behave as specified; no concurrent writer",
]
ASSUMPTIONS = ["no symbolic links or special files in the content tree (the property's quantifier excludes them; the generated trees "
               "have none)",
               "file names are valid UTF-8 without '/' (a Python str is collapsed to its UTF-8 bytes; code-point order = byte order)",
               "the payload contains at least one file (Hasher([]) raises; excluded by the creator-level theorems via has_file)",
               "independence of the enumeration order / path spelling is C08's subject; here the order is an input of model and code alike"]


def hasher_impl(tmp, sizes, pl, align, datas=None):
    """run the real Hasher on files of the given sizes; returns list of digests"""
    core.use_repo_in_process()
    from torrentfile.hasher import Hasher
    paths = []
    for i, n in enumerate(sizes):
        p = os.path.join(tmp, f"f{i:03d}")
        with open(p, "wb") as fd:
            fd.write(datas[i] if datas else bytes((i * 37 + j * 11 + 1) % 251 for j in range(n)))
        paths.append(p)
    h = trees.quiet(Hasher, paths, pl, align=align, progress=0,
                    progress_bar=_NoProg())
    return [bytes(x) for x in trees.quiet(list, h)]


class _NoProg:
    def update(self, *_):
        pass

    def close_out(self):
        pass


def small_data(i, n):
    return bytes((i * 37 + j * 11 + 1) % 251 for j in range(n))


def ref_v1(datas, pl, align):
    if align and len(datas) >= 1:
        stream = b"".join(d + bytes(-len(d) % pl) for d in datas)
    else:
        stream = b"".join(datas)
    return oracle.v1_pieces(stream, pl)


def unit_scope(ctx, align, model_ok):
    """Hasher vs reference vs extracted model on small scopes and generated cases"""
    cases = []
    if ctx.tier == "thorough":
        for k in range(1, 5):
            for sizes in itertools.product(range(0, 7), repeat=k):
                for pl in range(1, 5):
                    cases.append((list(sizes), pl))
        ctx.exhaustive = True
    else:
        for k in range(1, 4):
            for sizes in itertools.product((0, 1, 2, 3, 5), repeat=k):
                for pl in (1, 2, 3):
                    cases.append((list(sizes), pl))
        for _ in range(150):
            k = ctx.rng.randrange(1, 6)
            cases.append(([ctx.rng.randrange(0, 8) for _ in range(k)], ctx.rng.randrange(1, 6)))
    # real-granularity cases
    for _ in range(12 if ctx.tier == "quick" else 120):
        pl = ctx.rng.choice([16384, 32768])
        k = ctx.rng.randrange(1, 6)
        pool = trees.boundary_sizes(pl)
        cases.append(([ctx.rng.choice(pool) if ctx.rng.random() < 0.8 else ctx.rng.randrange(0, 2 * pl) for _ in range(k)], pl))
    lines = []
    with core.Scratch("vc01u_") as tmp:
        for n, (sizes, pl) in enumerate(cases):
            datas = [small_data(i, s) for i, s in enumerate(sizes)]
            got = hasher_impl(tmp, sizes, pl, align, datas)
            exp = ref_v1(datas, pl, align)
            if align and len(sizes) == 1:
                pass   # Hasher itself pads a single file when align=True; the creator forces align=False (checked e2e)
            if got != exp:
                ctx.fail("hasher-vs-bep3" + ("-align" if align else ""),
                         {"sizes": sizes, "piece_length": pl, "align": align, "case": _hasher_case(align, pl, sizes)},
                         [h.hex() for h in exp][:8], [h.hex() for h in got][:8])
            tree = {(f"f{i:03d}",): d for i, d in enumerate(datas)}
            cl = trees.classify_v1(tree, pl)
            ctx.case(key=("unit", align, tuple(sizes), pl), classes=[("align " if align else "") + c for c in cl],
                     nontrivial=bool(cl), sample={"sizes": sizes, "pl": pl, "align": align} if n == 7 else None)
            lines.append(("hasher", "1" if align else "0", str(pl), ",".join(d.hex() for d in datas), b"".join(got).hex(), sizes))
    if model_ok:
        outs = modelrun.run("hasher", [l[1:4] for l in lines])
        if outs is None:
            ctx.broken.append("extracted model driver for Hasher failed to run")
        else:
            for l, o in zip(lines, outs):
                ctx.traces_validated += 1
                if o != l[4]:
                    # sizes: the contents are small_data(index, size), so the size tuple rebuilds the files exactly
                    ctx.disagree("Model/Hasher.v vs hasher.Hasher",
                                 {"align": l[1], "pl": l[2], "files_hex": l[3][:200], "sizes": l[5],
                                  "case": _hasher_case(l[1] == "1", int(l[2]), l[5])},
                                 o[:120], l[4][:120])


CLI_PROGRESS = ["0", "1", "2", "quiet"]
REASSEMBLE = [None, "unchanged", "changed"]


def cli_argv(progress, rest, sub="create"):
    """`torrentfile [-q] create [--prog N] ...`: the progress modes of the command line"""
    if progress == "quiet":
        return ["-q", sub] + list(rest)
    return [sub, "--prog", str(progress)] + list(rest)


def route_name(inp, what="TorrentFile(..., "):
    if inp.get("cli"):
        return "`torrentfile " + " ".join(cli_argv(inp.get("progress", "0"), ["..."])) + "`"
    r = {None: ".write()", "unchanged": ".write(); .assemble() again; .write()",
         "changed": f".write(); payload changed ({inp.get('change')}); .assemble() again; .write()"}[inp.get("reassemble")]
    return f"{what}progress={inp.get('progress', 0)}){r}"


SCALE0 = 100000      # end-to-end case numbers from here on are the cases at scale


def e2e(ctx):
    n = 40 if ctx.tier == "quick" else 600
    core.use_repo_in_process()
    with core.Scratch("vc01e_") as tmp:
        os.environ["HOME"] = tmp
        for i in range(n):
            e2e_case(ctx, i, tmp)
        # the aimed small trees (trees.aimed_small), each through the four routes
        for j in range(trees.N_AIMED * 4):
            e2e_case(ctx, trees.AIMED0 + j, tmp)
        # payloads at scale (harness/scale.py): piece lengths 2 .. 16 MiB, file sizes aimed at 1 / 4 / 8 MiB read windows
        for j in range(len(scale.templates()) if ctx.tier == "quick" else 40):
            e2e_case(ctx, SCALE0 + j, tmp)


def e2e_case(ctx, i, tmp):
    """end-to-end case number i of a run: every random choice comes from ctx.rng, whose state at entry is recorded with a
       failure (the replay restores it and calls this function again: same tree, same contents, same route)"""
    from torrentfile.cli import execute
    state = rng_state(ctx.rng)
    if i >= SCALE0:
        pl, ltree, cl = scale.gen(ctx.rng, i - SCALE0)
    elif i >= trees.AIMED0:
        pl = ctx.rng.choice([16384, 32768])
        ltree, cl = trees.aimed_small(i - trees.AIMED0, ctx.rng, pl)       # structural shapes that must not depend on luck
    else:
        pl = ctx.rng.choice([16384, 16384, 32768, 65536])
        ltree, cl = trees.gen_tree(ctx.rng, pl)
    single = list(ltree) == [()]
    # no symbolic links here: C01's quantifier excludes them (C08 and C12 cover payloads with links)
    tree = trees.resolve_links(ltree)       # the reader's view: plain bytes everywhere; ltree is what gets written
    root = os.path.join(tmp, f"c{i}", ("payload.bin" if single else "payload") if i >= SCALE0 else trees.root_name(i, single))
    cl |= trees.root_name_classes(os.path.basename(root))
    trees.write_tree(root, ltree)
    out = os.path.join(tmp, f"c{i}", "o.torrent")
    # route: every fourth case through the command line (--prog 0|1|2 and --quiet in turn); the others through the library with
    # progress 0|1|2 and, in turn, a fresh create / assemble() called AGAIN on the same object with the tree unchanged /
    # assemble() called again after the payload changed (judged against the tree as it is on disk at that moment)
    via_cli = (i % 4 == 3)
    progress = CLI_PROGRESS[(i // 4) % len(CLI_PROGRESS)] if via_cli else (i // 4) % 3
    reassemble = None if via_cli else REASSEMBLE[i % 4]
    before, change, how = tree, False, None
    if reassemble == "changed":
        lbefore = ltree
        ltree, how = trees.mutate_tree(ctx.rng, lbefore, pl)
        tree = trees.resolve_links(ltree)

        def change():
            trees.rewrite_tree(root, lbefore, ltree)
    desc = {"tree": trees.tree_summary(tree), "piece_length": pl, "cli": via_cli, "progress": progress, "reassemble": reassemble,
            "index": i, "case": f"e2e:{i}", "rng_state": state}
    if trees.has_links(ltree):      # {path of the link: text of the link}; "tree" shows the links as the files a reader sees
        desc["symlinks"] = trees.link_summary(ltree)
    if how:
        desc.update(tree_at_construction=trees.tree_summary(before), change=how)
    try:
        if via_cli:
            trees.quiet(execute, cli_argv(progress, ["--piece-length", str(pl), "-o", out, root]))
            raw = oracle.read(out)
        else:
            raw = trees.create("v1", root, out, pl, progress=progress, reassemble=change or bool(reassemble))
    except (Exception, SystemExit) as e:  # noqa  (argparse leaves with SystemExit)
        ctx.fail("create-raised", desc, "a metafile", f"{type(e).__name__}: {e}")
        return desc
    try:
        meta = oracle.bdecode_strict(raw)
    except Exception:  # noqa  canonical form is C06's business; read leniently here
        import pyben
        meta = _to_bytes(pyben.loads(raw))
    info = meta[b"info"]
    problems = []
    if info.get(b"piece length") != pl:
        problems.append(f"piece length {info.get(b'piece length')} != {pl}")
    disk = oracle.walk_tree(root)
    if single:
        data = oracle.read(root)
        if b"files" in info:
            problems.append("single file has a files list")
        if info.get(b"length") != len(data):
            problems.append(f"length {info.get(b'length')} != {len(data)}")
        stream = data
    else:
        listed = [(tuple(c.decode() for c in f[b"path"]), f[b"length"]) for f in info.get(b"files", [])]
        want = sorted((comps, os.path.getsize(p)) for comps, p in disk)
        if sorted(listed) != want:
            problems.append(f"file list differs from disk: listed {sorted(listed)[:6]} disk {want[:6]}")
        stream = b"".join(oracle.read(os.path.join(root, *comps)) if os.path.isfile(os.path.join(root, *comps)) else b""
                          for comps, _ in listed)
    exp = b"".join(oracle.v1_pieces(stream, pl))
    if info.get(b"pieces") != exp:
        problems.append("pieces != SHA-1 of successive piece-length slices of the listed files")
    if problems:
        ctx.fail("v1-metafile", desc, "BEP 3", problems)
    order = None if single else [tuple(c.decode() for c in f[b"path"]) for f in info.get(b"files", [])]
    cl |= trees.classify_v1(tree, pl, order if order and set(order) == set(tree) else None)
    ctx.case(key=("e2e", i, tuple(sorted(trees.tree_summary(tree).items())), pl), classes=sorted(cl),
             nontrivial=bool(cl), sample={"tree": trees.tree_summary(tree), "pl": pl} if i == 2 else None)
    return desc


def _to_bytes(v):
    if isinstance(v, str):
        return v.encode()
    if isinstance(v, (bytes, bytearray)):
        return bytes(v)
    if isinstance(v, list):
        return [_to_bytes(x) for x in v]
    if isinstance(v, dict):
        return {_to_bytes(k): _to_bytes(x) for k, x in v.items()}
    return v


def run(ctx, model_ok):
    from props import creators_common as cc
    unit_scope(ctx, False, model_ok)
    quick = ctx.tier == "quick"
    cc.unit_for(ctx, model_ok, CREATOR_KINDS, n=180 if quick else 1440, budget=90000 if quick else 300000,
                required=CREATOR_CLASSES)
    e2e(ctx)


# ------------------------------------------------------------------------------------------------ replay toolkit
# Shared by the replays of C01, C06 and (through v2_common) C02 / C03 / C10.  A replay file records ONE case; `replay`
#   1. rebuilds that case in a scratch directory (contents are functions of recorded sizes / salts / generator states),
#      runs the implementation of core.REPO and the judge (or the extracted model) on it and prints what it sees;
#   2. when the case holds in isolation, re-runs the recorded run (same seed and tier, fresh interpreter) up to that case
#      and looks for the same report again: an implementation that keeps state between cases (a cache, a class attribute)
#      fails only after the cases that came before, and those are part of the input.
def _hasher_case(align, pl, sizes):
    return f"hasher:{int(bool(align))}:{pl}:" + ",".join(str(x) for x in sizes)


def rng_state(rng):
    """JSON-able state of a random.Random (Mersenne twister words as hex)"""
    version, words, gauss = rng.getstate()
    return {"version": version, "words_hex": "".join(f"{w:08x}" for w in words), "gauss_next": gauss}


def rng_restore(state):
    import random
    h = state["words_hex"]
    r = random.Random()
    r.setstate((state["version"], tuple(int(h[k:k + 8], 16) for k in range(0, len(h), 8)), state.get("gauss_next")))
    return r


def cannot(kind, why=""):
    print(f"replay: cannot rebuild input of kind {kind}" + (f" ({why})" if why else ""))
    return 2


def verdict(tag, rcs):
    rc = 1 if 1 in rcs else (2 if 2 in rcs or not rcs else 0)
    print(f"{tag} verdict:", {0: "the property holds on this input", 1: "property VIOLATED on this input",
                               2: "could not be replayed exactly"}[rc])
    return rc


def replay_creators_item(ctx, d, tag):
    """one disagreement of the unit correspondence of Model/Creators.v (creators_common.unit): the recorded tree (sizes, salts
       and ENUMERATION ORDER of every directory), path spelling, working directory, clock, block size and options are rebuilt,
       the creator of core.REPO writes the metafile again and the extracted model predicts its bytes again"""
    from props import creators_common as cc
    inp = d.get("input") if isinstance(d.get("input"), dict) else {}
    what = str(d.get("what", ""))
    if inp.get("kind") == "unit" and "creator" in inp and "tree" in inp:
        model, raw = cc.replay_unit(ctx, inp)
        print(f"{tag} unit correspondence {inp['creator']} on {inp.get('summary')} spelled {inp.get('spelling')!r} "
              f"({inp.get('spelling_label')}), piece length {inp['piece_length']}, block {inp.get('block')}, options {inp.get('options')}")
        if isinstance(raw, BaseException):
            print(f"{tag} DISAGREE: the model predicts a metafile, the creator raised {type(raw).__name__}: {raw}")
            return 1
        if model is None:
            print(f"{tag} cannot evaluate: the extracted creators driver gave no answer (./check --setup)")
            return 2
        if model == raw:
            print(f"{tag} model and implementation agree: {len(raw)} identical bytes")
            return 0
        print(f"{tag} model and implementation DISAGREE:", cc._diff(model.hex(), raw))
        return 1
    if inp.get("kind") == "filelist_total" and "tree" in inp and "spelling" in inp:
        return _replay_flt(inp, tag)
    return cannot("disagreement " + repr(what), "the content tree, its enumeration order and the path spelling are not in the file")


CREATORS_MATCH = {"unit": ("kind", "creator", "tree", "piece_length", "options", "payload_name", "spelling_label", "cwd_rel",
                           "clock", "block"),
                  "filelist_total": ("kind", "tree", "payload_name", "cwd_rel")}


def creators_target(d, phase):
    """history target of a creators unit disagreement: the case is recognised by its recorded input (it has no number)"""
    inp = d.get("input") if isinstance(d.get("input"), dict) else {}
    keys = CREATORS_MATCH.get(inp.get("kind"))
    if not keys or "tree" not in inp:
        return None
    return {"type": "disagreement", "name": str(d.get("what")), "case": None, "phase": phase, "index": None, "expect_key": None,
            "match": {k: inp.get(k) for k in keys}}


def _replay_flt(inp, tag):
    """utils.filelist_total vs the extracted filelist_total on the recorded tree, enumeration order and spelling"""
    import re
    import pathlib
    from props import creators_common as cc
    node, payload = inp["tree"], inp["payload_name"]
    with core.Scratch("vcfr_") as tmp:
        tmp = os.path.realpath(tmp)
        absolute = cc.make_case_dir(tmp, payload, node)
        cwd = os.path.normpath(os.path.join(tmp, inp["cwd_rel"]))
        spelling = inp["spelling"]
        if os.path.isabs(spelling):
            # an absolute spelling names the case directory <scratch>/u<i> of the recorded run: put this one in its place
            m = re.match(r"^(/*)(/.+?/u\d+)(/w/.*)$", spelling)
            if not m:
                return cannot("disagreement filelist_total", f"absolute spelling {spelling!r} does not name a case directory")
            spelling = m.group(1) + tmp + m.group(3)
        single = cc.is_file(node)
        en = cc.EnumOrder(cc.mapping_of(absolute, node))
        print(f"{tag} filelist_total on {cc.summary(node)} spelled {spelling!r} from {inp['cwd_rel']!r}")
        try:
            with cc.patched(cwd=cwd), en:
                from torrentfile import utils
                total, flist = utils.filelist_total(spelling)
                rels = [os.path.relpath(p, spelling) for p in flist] if not single else \
                    ["" if os.path.samefile(p, spelling) else p for p in flist]
            impl = f"{total}|" + cc._lst(rels)
        except Exception as e:  # noqa
            print(f"{tag} DISAGREE: utils.filelist_total raised {type(e).__name__}: {e}")
            return 1
        outs = cc.run_model("flt", [(cc._hx(str(pathlib.PurePosixPath(spelling))), cc.wire(node))])
    if not outs or outs[0].startswith("ERROR"):
        print(f"{tag} cannot evaluate: the extracted creators driver gave no answer (./check --setup)")
        return 2
    print(f"   implementation {impl[:300]}\n   model          {outs[0][:300]}")
    print(f"{tag} " + ("model and implementation agree" if outs[0] == impl else "model and implementation DISAGREE"))
    return 0 if outs[0] == impl else 1


def _stem(b):
    b = str(b)
    for sep in (" was hit", " was never", ": "):
        if sep in b:
            return b.split(sep)[0]
    return b[:60]


def replay_broken(ctx, pid, data, phase_module):
    """broken obligations: translator / Coq build / audit / driver ones are functions of the source tree and are rebuilt by the
       shared helper of C17; the others (a boundary class that the run did not reach, the enumeration patch not consulted, a
       crash of the harness) are functions of the whole run: it is repeated with the recorded seed and tier"""
    from props import c17
    recorded = [str(b) for b in data.get("broken") or []]
    build = [b for b in recorded if b.startswith(c17.REBUILDABLE) or "driver" in b]
    runlevel = [b for b in recorded if b not in build]
    rcs = []
    if build:
        rcs.append(c17.replay_broken(ctx, pid, build))
    if runlevel:
        for b in runlevel:
            print(f"[{pid} replay] recorded broken obligation of the run: {b[:300]}")
        targets = [{"type": "broken", "name": s} for s in sorted({_stem(b) for b in runlevel})]
        rcs.append(history(pid, data, targets, phase_module))
    return rcs


# ---------------------------------------------------------------- history: the run up to the recorded case, fresh interpreter
class _Stop(Exception):
    pass


def history(pid, data, targets, phase_module, pins=None):
    """re-run `run` of the property in a fresh interpreter with the seed and tier of the replay file (every case of a run is a
       function of them) until the recorded cases have been judged; 1 when one of the recorded reports comes back, 0 when the
       cases were reached and none does, 2 when the run no longer contains them"""
    import sys
    import json
    import tempfile
    import subprocess
    if os.environ.get("VERIF_REPLAY_NO_HISTORY"):
        print(f"[{pid} replay] VERIF_REPLAY_NO_HISTORY is set: the run before the case is not repeated")
        return 0
    spec = {"pid": pid, "seed": int(data.get("seed", 0) or 0), "tier": data.get("tier", "quick"), "targets": targets,
            "phase_module": phase_module, "pins": pins}
    with tempfile.NamedTemporaryFile("w", suffix=".history.json", delete=False) as fd:
        json.dump(core.jsonable(spec), fd)
        name = fd.name
    what = "whole run" if any(t["type"] == "broken" for t in targets) else "run up to the recorded case"
    print(f"[{pid} replay] repeating the {what} (seed {spec['seed']}, tier {spec['tier']}) against {core.REPO} in a fresh interpreter "
          "(earlier cases of the process are part of the input)")
    code = ("import sys; sys.path.insert(0, %r); import core; from props import c01; sys.exit(c01.history_child(sys.argv[1]))"
            % os.path.join(core.VERIF, "harness"))
    try:
        p = subprocess.run([core.PY, "-c", code, name], cwd=core.VERIF, timeout=7200)
    finally:
        os.remove(name)
    if p.returncode not in (0, 1, 2):
        print(f"[{pid} replay] the repeated run ended with exit status {p.returncode}")
        return 2
    return p.returncode


def history_child(path):
    import json
    import importlib
    spec = json.load(open(path))
    pid, targets = spec["pid"], spec["targets"]
    mod = importlib.import_module("props." + pid.lower())
    phase_of = importlib.import_module(spec["phase_module"]).replay_phase_of
    whole = any(t["type"] == "broken" for t in targets)
    limit = None if whole else max((t["phase"], t.get("index") if t.get("index") is not None else 10 ** 9) for t in targets)
    expect = [json.dumps(t["expect_key"]) for t in targets if t.get("expect_key") is not None]
    seen = set()

    class H(core.Ctx):
        def case(self, key=None, classes=(), nontrivial=True, sample=None):
            ph = phase_of(pid, key)
            if ph is not None:
                if limit is not None:
                    if ph > limit[0]:
                        raise _Stop()
                    if ph == limit[0] and limit[1] < 10 ** 9 and len(key) > 1 and type(key[1]) is int and key[1] > limit[1]:
                        raise _Stop()
                k = json.dumps(core.jsonable(key))
                if k in expect:
                    seen.add(k)
            super().case(key=key, classes=classes, nontrivial=nontrivial, sample=sample)

    ctx = H(pid, spec["tier"], spec["seed"])
    for attr, value in (spec.get("pins") or {}).items():      # facts about the recorded run that shaped its case lists
        setattr(ctx, attr, value)
    want_model = whole or any(t["type"] == "disagreement" for t in targets)
    try:
        mod.run(ctx, model_ok=want_model)
    except _Stop:
        pass
    except Exception as e:  # noqa  (what check.py records)
        import traceback
        ctx.broken.append("harness crashed: " + "".join(traceback.format_exception(e))[-1500:])
    back = 0
    for t in targets:
        def same(i):
            if not isinstance(i, dict):
                return False
            if t.get("match"):
                return all(core.jsonable(i.get(k)) == v for k, v in t["match"].items())
            return i.get("case") == t["case"]
        if t["type"] == "failure":
            hits = [f for f in ctx.failures if f["kind"] == t["name"] and same(f["input"])]
            shown = [str(core.jsonable(f["observed"]))[:300] for f in hits[:1]]
        elif t["type"] == "disagreement":
            hits = [d for d in ctx.disagreements if d["what"] == t["name"] and same(d["input"])]
            shown = [f"model {str(core.jsonable(d['model']))[:150]} impl {str(core.jsonable(d['impl']))[:150]}" for d in hits[:1]]
        else:
            hits = [b for b in ctx.broken if _stem(b) == t["name"]]
            shown = [str(b)[:300] for b in hits[:1]]
        label = t["name"] + (" on case " + t["case"] if t.get("case") else " on the recorded tree" if t.get("match") else "")
        if hits:
            back += 1
            print(f"[{pid} replay] in the repeated run: {label} is reported AGAIN: {shown[0]}")
        else:
            print(f"[{pid} replay] in the repeated run: {label} is not reported")
    print(f"[{pid} replay] repeated run: {ctx.evaluations} cases, {len(ctx.failures)} failures, {len(ctx.disagreements)} disagreements, "
          f"{len(ctx.broken)} broken")
    if back:
        return 1
    missing = [k for k in expect if k not in seen]
    if missing:
        print(f"replay: cannot rebuild input of kind history (the repeated run did not contain the recorded case {missing[0][:200]})")
        return 2
    return 0


def replay_phase_of(pid, key):
    """position of a counted case in run(): 0 Hasher unit scope, 1 creators unit correspondence, 2 end to end"""
    if not isinstance(key, tuple) or not key:
        return None
    if key[0] == "e2e":
        return 2
    if key[0] == "flt" or (key[0] == "unit" and len(key) == 7):
        return 1
    if key[0] == "unit":
        return 0
    return None


# ------------------------------------------------------------------------------------------------ replay of C01
def replay_hasher(tag, sizes, pl, align, tmp, with_model):
    """Hasher of core.REPO on files of the recorded sizes (contents small_data(index, size)) vs reference BEP 3 hashing and,
       for a correspondence case, vs the extracted Model/Hasher.v"""
    datas = [small_data(i, s) for i, s in enumerate(sizes)]
    d = os.path.join(tmp, f"h{len(os.listdir(tmp))}")
    os.makedirs(d)
    try:
        got = hasher_impl(d, sizes, pl, align, datas)
    except Exception as e:  # noqa
        print(f"{tag} VIOLATION Hasher raised on sizes {sizes}, piece length {pl}: {type(e).__name__}: {e}")
        return 1
    exp = ref_v1(datas, pl, align)
    print(f"{tag} Hasher(align={align}) on sizes {sizes}, piece length {pl}:\n   implementation {[h.hex() for h in got][:8]}\n"
          f"   reference      {[h.hex() for h in exp][:8]}")
    rc = 0
    if got != exp:
        print(f"{tag} VIOLATION hasher-vs-bep3: digests differ from reference hashing of the concatenated files")
        rc = 1
    if with_model:
        outs = modelrun.run("hasher", [("1" if align else "0", str(pl), ",".join(x.hex() for x in datas))])
        if outs is None:
            print(f"{tag} cannot evaluate: the extracted hasher driver failed to run (./check --setup)")
            return rc or 2
        same = outs[0] == b"".join(got).hex()
        print(f"{tag} Model/Hasher.v: " + ("model and implementation agree" if same else f"model and implementation DISAGREE (model {outs[0][:120]})"))
        rc = rc or (0 if same else 1)
    return rc


def _replay_e2e(ctx, kind, inp, tmp):
    tag = "[C01 replay]"
    if not isinstance(inp.get("rng_state"), dict) or "index" not in inp:
        return cannot(kind, "the generator state of the case was not recorded: file contents cannot be rebuilt")
    core.use_repo_in_process()
    fresh = core.Ctx("C01", ctx.tier, ctx.seed)
    fresh.rng = rng_restore(inp["rng_state"])
    desc = e2e_case(fresh, inp["index"], tmp)
    if desc["tree"] != inp.get("tree") or desc["piece_length"] != inp.get("piece_length"):
        return cannot(kind, f"the generator no longer yields the recorded tree: {desc['tree']} vs {inp.get('tree')}")
    print(f"{tag} case {inp['index']}: tree {desc['tree']}, piece length {desc['piece_length']}, " + route_name(desc)
          + (f"; symbolic links inside the payload {desc['symlinks']}" if desc.get("symlinks") else ""))
    for f in fresh.failures:
        print(f"{tag} VIOLATION {f['kind']}: {f['observed']}")
    if not fresh.failures:
        print(f"{tag} judge: files, lengths, piece length and pieces equal reference BEP 3 hashing of the tree as it is on disk")
    return 1 if fresh.failures else 0


def replay(ctx, data):
    """rebuilds the recorded case, runs Hasher / creator, reference and model again; 1 violated, 0 holds, 2 cannot rebuild"""
    from props import c17
    tag = "[C01 replay]"
    kind = str(data.get("kind"))
    inp = data.get("input") if isinstance(data.get("input"), dict) else {}
    print(f"{tag} kind={kind} implementation under test: {core.REPO}")
    rcs, again = [], []
    with core.Scratch("vc01r_") as tmp:
        os.environ["HOME"] = tmp
        if data.get("finding") or data.get("reproducer"):
            rcs.append(c17.replay_finding("C01", data))
        elif kind in ("create-raised", "v1-metafile"):
            rcs.append(_replay_e2e(ctx, kind, inp, tmp))
            if rcs[-1] == 0:
                again.append({"type": "failure", "name": kind, "case": inp.get("case"), "phase": 2, "index": inp["index"],
                              "expect_key": None if kind == "create-raised" else
                              ["e2e", inp["index"], sorted([k, v] for k, v in inp["tree"].items()), inp["piece_length"]]})
        elif kind.startswith("hasher-vs-bep3"):
            if "sizes" not in inp or "piece_length" not in inp:
                rcs.append(cannot(kind, "no size tuple recorded"))
            else:
                align = bool(inp.get("align"))
                rcs.append(replay_hasher(tag, list(inp["sizes"]), inp["piece_length"], align, tmp, with_model=False))
                if rcs[-1] == 0 and not align:
                    again.append({"type": "failure", "name": kind, "case": _hasher_case(align, inp["piece_length"], inp["sizes"]),
                                  "phase": 0, "index": None,
                                  "expect_key": ["unit", align, list(inp["sizes"]), inp["piece_length"]]})
        elif kind == "proof-or-correspondence-broken" or "what" in data:
            dis = data.get("disagreements") or ([data] if "what" in data else [])
            for d in dis[:5]:
                di = d.get("input") if isinstance(d.get("input"), dict) else {}
                what = str(d.get("what", ""))
                if what.startswith("Model/Hasher.v vs hasher.Hasher"):
                    if "sizes" in di:
                        sizes = [int(x) for x in di["sizes"]]
                    elif len(di.get("files_hex", "x" * 200)) < 200:
                        sizes = [len(x) // 2 for x in di["files_hex"].split(",")]
                    else:
                        rcs.append(cannot("disagreement " + what, "the size tuple was not recorded"))
                        continue
                    align = di.get("align") == "1"
                    rcs.append(replay_hasher(tag, sizes, int(di["pl"]), align, tmp, with_model=True))
                    if rcs[-1] == 0 and not align:
                        again.append({"type": "disagreement", "name": what, "case": _hasher_case(align, int(di["pl"]), sizes),
                                      "phase": 0, "index": None, "expect_key": ["unit", align, sizes, int(di["pl"])]})
                elif what.startswith("Model/Creators.v"):
                    rcs.append(replay_creators_item(ctx, d, tag))
                    if rcs[-1] == 0 and creators_target(d, 1):
                        again.append(creators_target(d, 1))
                else:
                    rcs.append(cannot("disagreement " + repr(what), "unknown correspondence"))
            if data.get("broken"):
                rcs += replay_broken(ctx, "C01", data, "props.c01")
            if not dis and not data.get("broken"):
                print(f"{tag} the file records neither a disagreement nor a broken obligation: nothing to replay")
                rcs.append(2)
        else:
            rcs.append(cannot(kind, "unknown kind"))
    if again and 1 not in rcs:
        rcs.append(history("C01", data, again, "props.c01"))
    return verdict(tag, rcs)
