"""
Shared code of the recheck checks C04 / C05 / C16.

Two parts (DESIGN.md 2.6):
  * model tie: the real Checker / FeedChecker / HashChecker iterators versus the extracted Coq models
    (Model/Recheck.v, FileHasher of Model/HasherV2.v) on the same (piece length, recorded lengths,
    recorded hashes, per-file disk state) -- whole traces (hash found, recorded hash, size) and, for v1,
    the piece BYTES of FeedChecker.iter_pieces();
  * end to end: Checker(...).results() / `torrentfile recheck` versus the reference verifier
    (harness/ref/oracle.py: absent data read as zeros) on generated trees, metafiles of every creator
    and of the reference encoder (incl. v1 metafiles "of another tool" whose ordinary files carry the BEP 47
    attributes x / h, with and without pad entries: ATTR_KINDS), and damage sets.
    At SCALE (e2e_scale; end to end only, nothing of it goes to the extracted models): the payloads of harness/scale.py
    (piece lengths 2 .. 16 MiB, 32 MiB in the thorough tier; file sizes aimed at 1 / 4 / 8 MiB read windows) and payloads
    with DUPLICATE CONTENT (independent copies, 48 KiB .. 3 MiB, piece lengths 16 KiB .. 4 MiB), creators' and reference
    metafiles, intact and damaged, root and parent, judged by the same `judge`.
    TEXT VERSUS BYTES (TEXT_RULE): payloads whose names are not stable under Unicode normalisation / glob expansion (NAME_SHAPES:
    NFD names, equivalent names side by side with different and with identical content, glob metacharacters) and payloads whose
    recorded hash strings are valid UTF-8 with a multi-byte character (aimed_utf8_strings; recipes in harness/data/utf8_digests.json).
    PATH ARGUMENTS (PATHS_RULE, aimed_paths): look-up layouts whose directory names are suffixes / prefixes of one another or nest an
    entry named like the torrent, the content path spelled absolute / relative / './x' / 'x/.' / with a trailing separator under several
    working directories, a relative content argument with the metafile in another folder holding another copy, and (C05) metafiles
    CREATED through spellings such as '.', '..', 'payload/sub/..'; library, cli.execute and a fresh interpreter with cwd set.
A `mode` ("C04" | "C05" | "C16") selects which disk states are generated and which observable is judged.
"""
import os
import re
import sys
import random
import shutil
import hashlib
import time
import itertools
import subprocess
import unicodedata

import core
import trees
import scale
import modelrun
from ref import oracle

modelrun.register("recheck", "feed", "feedpieces", "specv1", "hashcheck", "hashcheck_disk", "specv2", "specv2_disk", "fhlayers")

GEN_FILES = []
modelrun.register("checkpaths", "checker", "findroot")
EXTRA_TARGETS = ["Extract/ExtractRecheck.vo", "Extract/ExtractCheckPaths.vo", "Proofs/CheckPathsProofs.vo",
                 "Extract/ExtractRecheckInit.vo"]
AREAS = ["recheck", "checkpaths", "recheckinit"]
B = 16384

TRUSTED_BASE = [
    "Coq 8.16.1 kernel; theorems closed under the global context; SHA-1 / SHA-256 are arbitrary functions H1 / H256 in "
    "every theorem (collision resistance appears only as the visible premise piece_differs of the C04 theorems)",
    "hand-written models Model/Recheck.v (FeedChecker, HashChecker, Padder, Checker.iter_hashes) and Model/HasherV2.v "
    "(FileHasher) tied to recheck.py / hasher.py by differential execution of whole traces (extracted OCaml vs the real iterators)",
    "extraction: ExtrOcamlBasic, ExtrOcamlString; OCaml SHA-1/SHA-256 (ocaml/sha.ml, self-tested) and the adapter "
    "ocaml/areas/recheck.ml (cuts the recorded strings with the extracted `chunks`) for the correspondence only",
    "from the integers to the float: Proofs/Percent.v proves over Flocq's binary64 rounding (an IEEE operation returns the rounding of the "
    "exact real result; round to nearest even) that (m/c)*100 is exactly 100 iff m = c and below 100 otherwise for 0 <= m <= c, 0 < c <= 2^53 "
    "(tight bound 2^54); these *_float_* theorems depend on the axioms of Coq's standard library of reals: ClassicalDedekindReals.sig_not_dec, "
    "ClassicalDedekindReals.sig_forall_dec, FunctionalExtensionality.functional_extensionality_dep, Classical_Prop.classic; CPython's int/int "
    "true division is correctly rounded (trusted); the relation is also asserted on every evaluated case",
    "the composition Model/RecheckInit.v recheck_model (decoded metafile + file system -> total, matched, consumed) and the Coq reference "
    "encoder Spec/MetafileWF.v are tied by differential execution: recheck_model vs the real Checker run to exhaustion on scratch "
    "directories (every metafile kind x disk state x root/parent), ref_metafile vs harness/ref/oracle.py ref_metafile (equal decoded values)",
    "mapping of metafile entries to disk paths: hand model Model/CheckPaths.v (Checker.__init__ / find_root / check_paths / "
    "walk_file_tree over three file-system oracles; no file size is an input) tied by differential execution on real scratch "
    "directories (root, per-entry path / length / pieces root, total; payload root and parent; nested same-name entries; damaged states)",
    "os.path.exists / open / readinto on regular files behave as specified; no concurrent writer",
]
ASSUMPTIONS = [
    "no file on disk is longer than recorded (flips, truncations, removals never lengthen: disk_within)",
    "v2/hybrid: the tool hashes absent data its own way (zero-hash padded merkle / SHA-256 of zero bytes); verdicts are compared "
    "with the zero-fill reference only on pieces whose missing described bytes are not all zero (the restriction of C04/C16)",
    "pyben returns valid-UTF-8 byte strings as str; the models take the recorded strings as bytes (the conversion repaired by "
    "D37 is exercised by the aimed end-to-end class `recorded digest is valid UTF-8`)",
]

HASHED = ["Checker.iter_hashes", "Checker.check_paths", "Checker.find_root", "Checker.walk_file_tree",
          "FeedChecker.__next__", "FeedChecker.iter_pieces", "FeedChecker.extract", "FeedChecker._gen_padding",
          "HashChecker.__next__", "HashChecker.next_file", "HashChecker.process_current", "HashChecker.advance"]


# ------------------------------------------------------------------------------- small helpers
def small_data(i, n):
    """deterministic non-zero bytes (i < 8, n < 12)"""
    return bytes((i * 37 + j * 11 + 1) % 251 for j in range(n))


def _to_bytes(v):
    if isinstance(v, str):
        return v.encode()
    if isinstance(v, (bytes, bytearray)):
        return bytes(v)
    if isinstance(v, list):
        return [_to_bytes(x) for x in v]
    if isinstance(v, dict):
        return {_to_bytes(k): _to_bytes(x) for k, x in v.items()}
    return v


def decode_meta(raw):
    try:
        return oracle.bdecode_strict(raw)
    except Exception:  # noqa  canonical form is C06's business; read leniently (order preserving) here
        import pyben
        return _to_bytes(pyben.loads(raw))


def ratio(matched, consumed):
    """the arithmetic of Checker.iter_hashes"""
    return (matched / consumed) * 100 if consumed > 0 else 0


def hx(x):
    if isinstance(x, (bytes, bytearray)):
        return bytes(x).hex()
    if x is None:
        return "None"
    return "str:" + repr(x)


def path_of(root, comps, single):
    return root if single else os.path.join(root, *comps)


def write_file(p, data):
    """data None = absent"""
    if data is None:
        if os.path.exists(p):
            os.remove(p)
        return
    os.makedirs(os.path.dirname(p), exist_ok=True)
    with open(p, "wb") as fd:
        fd.write(data)


def zero_filled(orig, disk):
    if disk is None:
        return bytes(len(orig))
    return disk + bytes(len(orig) - len(disk))


# ------------------------------------------------------------------------- implementation side
def impl_run(mf, path, want_pieces=False):
    """
    Checker(mf, path): the whole stream of iter_hashes() as [(chunk hex, piece hex, size)], the returned
    float, and (v1, on request) the bytes FeedChecker.iter_pieces() yields, copied at the moment of the yield.
    """
    core.use_repo_in_process()
    import importlib
    recheck = importlib.import_module("torrentfile.recheck")

    def go():
        out = {}
        chk = recheck.Checker(mf, path)
        out["version"] = chk.meta_version
        tr = []
        for chunk, piece, _, size in chk.iter_hashes():
            tr.append((hx(chunk), hx(piece), size))
        out["trace"] = tr
        out["result"] = chk._result
        out["results()"] = recheck.Checker(mf, path).results()
        if want_pieces and chk.meta_version == 1:
            fc = recheck.FeedChecker(recheck.Checker(mf, path))
            out["pieces"] = [bytes(p).hex() for p in fc.iter_pieces()]
        return out
    try:
        return trees.quiet(go)
    except Exception as e:  # noqa
        return {"error": f"{type(e).__name__}: {e}"}


def _recheck_mod():
    core.use_repo_in_process()
    import importlib
    return importlib.import_module("torrentfile.recheck")


def impl_result(mf, path):
    core.use_repo_in_process()
    import importlib
    recheck = importlib.import_module("torrentfile.recheck")
    try:
        return trees.quiet(lambda: recheck.Checker(mf, path).results())
    except Exception as e:  # noqa
        return f"{type(e).__name__}: {e}"


def cli_result(mf, path, home, subprocess_=False, hashseed=0):
    """`torrentfile recheck <metafile> <content>`: in process through cli.execute, or a fresh interpreter (whose str hashes are
       salted with `hashseed`: the order of sets of text differs from run to run as it does for a user)"""
    if not subprocess_:
        core.use_repo_in_process()
        from torrentfile.cli import execute
        try:
            return trees.quiet(execute, ["recheck", mf, path])
        except BaseException as e:  # noqa  (argparse exits)
            return f"{type(e).__name__}: {e}"
    p = subprocess.run([core.PY, "-m", "torrentfile", "recheck", mf, path], env=core.impl_env({"HOME": home, "PYTHONHASHSEED": str(hashseed)}),
                       capture_output=True, text=True, timeout=300)
    m = re.findall(r"<- ([0-9.eE+-]+)% ->", p.stdout)
    if p.returncode != 0 or not m:
        return f"exit {p.returncode}: {p.stderr.strip()[-200:]}"
    return float(m[-1])


# --------------------------------------------------------------------------------- model inputs
def v1_entries(meta, root, single):
    """listed entries of the v1 view in stream order: dict(comps, L, pad, disk)   (disk None = absent)"""
    out = []
    for comps, length in oracle.v1_layout(meta[b"info"]):
        if comps is None:
            out.append({"comps": None, "L": length, "pad": True, "disk": None})
            continue
        p = path_of(root, comps, single)
        out.append({"comps": comps, "L": length, "pad": False, "disk": oracle.read(p) if os.path.exists(p) else None})
    return out


def v1_model_fields(meta, entries):
    info = meta[b"info"]
    lens = ",".join(str(e["L"]) for e in entries) or "-"
    disk = ",".join("~" if e["disk"] is None else e["disk"].hex() for e in entries) if entries else "-"
    return (str(info[b"piece length"]), lens, disk, info[b"pieces"].hex())


def v2_entries(meta, root, single):
    """listed files of the v2 view in tree order: dict(comps, L, recorded, disk)"""
    info = meta[b"info"]
    pl = info[b"piece length"]
    layers = meta.get(b"piece layers", {})
    out = []
    for comps, length, proot in oracle.v2_layout(info):
        if length > pl:
            rec = layers.get(proot, b"")
        else:
            rec = proot or b""
        p = root if single else os.path.join(root, *comps)
        out.append({"comps": comps, "L": length, "recorded": rec, "pad": False,
                    "disk": oracle.read(p) if os.path.exists(p) else None})
    return out


def v2_model_fields(meta, entries):
    files = ",".join(f"{e['L']}:{e['recorded'].hex()}:{'~' if e['disk'] is None else e['disk'].hex()}" for e in entries) or "-"
    return (str(meta[b"info"][b"piece length"]), files)


def parse_model_trace(line):
    """'trace|matched|consumed' -> ([(chunk, piece, size)], matched, consumed)"""
    tr, m, c = line.split("|")
    out = []
    if tr != "-":
        for it in tr.split(","):
            a, b, s = it.split(":")
            out.append((a, b, int(s)))
    return out, int(m), int(c)


# --------------------------------------------------------------------------- boundary classes
def piece_ranges(entries, pl, per_file):
    """list of (start, end, file index set) of the pieces; offsets in the concatenation of the listed extents"""
    out = []
    bounds, off = [], 0
    for e in entries:
        bounds.append((off, off + e["L"]))
        off += e["L"]
    if per_file:
        for i, (a, b) in enumerate(bounds):
            for s in range(a, b, pl):
                out.append((s, min(s + pl, b), {i}))
    else:
        for s in range(0, off, pl):
            t = min(s + pl, off)
            out.append((s, t, {i for i, (a, b) in enumerate(bounds) if a < t and b > s}))
    return out, bounds


def classify(entries, origs, pl, per_file):
    """
    Appendix B classes ("recheck" row) of one (layout, disk state).  entries as v1_entries/v2_entries,
    origs: the described content per entry (zeros for pad entries).
    """
    cl = set()
    zf = [zero_filled(o, e["disk"]) for e, o in zip(entries, origs)]
    damaged_files = [i for i, (z, o) in enumerate(zip(zf, origs)) if z != o]
    real = [i for i, e in enumerate(entries) if not e["pad"]]
    if not real:
        return cl

    def pos(i):
        if len(real) == 1:
            return "only"
        return "first" if i == real[0] else ("last" if i == real[-1] else "middle")
    for i in real:
        e = entries[i]
        if e["L"] == 0:
            cl.add("empty file " + ("absent " if e["disk"] is None else "present ") + pos(i))
            continue
        if e["disk"] is None:
            st = "absent"
        elif len(e["disk"]) == e["L"]:
            st = "present-complete"
        elif len(e["disk"]) == 0:
            st = "zero bytes on disk"
        else:
            st = "present-short"
        cl.add(f"file {st} {pos(i)}")
        if per_file and pl > 2 * B:
            nb = -(-(e["L"] % pl or pl) // B)          # blocks of the last (or only) piece
            if nb & (nb - 1) and nb < pl // B:
                cl.add("file below one piece with 3/5/6/7 blocks (not a power of two)" if e["L"] < pl
                       else "last piece of a multi-piece file with 3/5/6/7 blocks")
    if not damaged_files:
        cl.add("intact")
        # layout classes of intact states
        sizes = [entries[i]["L"] for i in real]
        if any(s and s % pl == 0 for s in sizes[:-1]):
            cl.add("intact: a file ends on a piece boundary")
        if sum(sizes) < pl:
            cl.add("intact: total < pl")
        return cl
    pieces, bounds = piece_ranges(entries, pl, per_file)
    stream_o, stream_z = b"".join(origs), b"".join(zf)
    n = len(pieces)
    for k, (s, t, fs) in enumerate(pieces):
        if stream_o[s:t] == stream_z[s:t]:
            continue
        if n == 1:
            cl.add("damage in the only piece")
        elif k == 0:
            cl.add("damage in first piece")
        elif k == n - 1:
            cl.add("damage in last piece")
        else:
            cl.add("damage in middle piece")
        if len([i for i in fs if not entries[i]["pad"] and entries[i]["L"] > 0]) >= 2:
            cl.add("damage in a piece shared by >=2 files")
        if t - s < pl:
            cl.add("damage in a short (final) piece")
    for i in damaged_files:
        j = real.index(i) if i in real else None
        if j is None:
            continue
        if j > 0:
            prev = real[j - 1]
            if entries[prev]["L"] == 0:
                cl.add("empty file before the damage")
            # does the data before this file end on a piece boundary (v1: stream offset; v2: the previous file's length)
            on_boundary = (bounds[i][0] % pl == 0) if not per_file else (entries[prev]["L"] % pl == 0 and entries[prev]["L"] > 0)
            cl.add("file before the damage ends on a piece boundary" if on_boundary else "file before the damage ends inside a piece")
        if j + 1 < len(real) and entries[real[j + 1]]["L"] == 0:
            cl.add("empty file after the damage")
        if j + 1 < len(real) and entries[real[j + 1]]["L"] > 0:
            cl.add("intact data after the damage" if real[j + 1] not in damaged_files else "damaged file after the damage")
    return cl


def removed_all_zero(orig, disk):
    """the part of the described bytes that is missing on disk is all zero (or nothing is missing)"""
    n = 0 if disk is None else len(disk)
    return not any(orig[n:])


def qualifies_c04(entries, origs):
    """
    Damage in the sense of C04: the zero-filled disk state differs from the described payload (a flip always
    does; a truncation or removal only if the missing described bytes are not all zero), and -- the
    restriction of the quantifier -- no truncation / removal hits an all-zero region.
    """
    differs = False
    for e, o in zip(entries, origs):
        if e["pad"]:
            continue
        missing = e["disk"] is None or len(e["disk"]) < len(o)
        if missing and e["L"] > 0 and removed_all_zero(o, e["disk"]):
            return False
        if zero_filled(o, e["disk"]) != o:
            differs = True
    return differs


def v2_piece_guard(entries, origs, pl):
    """per v2 piece: False where the tool's hashing of absent data and zero-fill hashing may legitimately differ"""
    out = []
    for e, o in zip(entries, origs):
        n = e["L"] if (e["disk"] is not None and len(e["disk"]) >= e["L"]) else (0 if e["disk"] is None else len(e["disk"]))
        for s in range(0, e["L"], pl):
            t = min(s + pl, e["L"])
            if n >= t:
                out.append(True)            # nothing of this piece is missing
            elif pl == B and n <= s:
                # one block per piece and the whole piece absent: the tool's digest for it (SHA-256 of that many zero
                # bytes) IS the zero-fill digest, so the verdict is comparable even when the described bytes are all zero
                out.append(True)
            else:
                out.append(any(o[max(s, n):t]))
    return out


# ------------------------------------------------------------------ model tie: small scope (v1)
def small_layouts(ctx, thorough_exhaustive):
    out = []
    if ctx.tier == "thorough" and thorough_exhaustive:
        for k in range(1, 5):
            for sizes in itertools.product(range(0, 6), repeat=k):
                for pl in range(1, 5):
                    out.append((sizes, pl, False))
                    if k == 1 and sizes[0] > 0:
                        out.append((sizes, pl, True))
        return out, True
    # deterministic sample: every layout of <= 3 files over {0, 1, 2, 3, 5} with pl 2, 3 + random ones
    for k in range(1, 4):
        for sizes in itertools.product((0, 1, 2, 3, 5), repeat=k):
            for pl in ((2, 3) if k == 3 else (1, 2, 3, 4)):
                out.append((sizes, pl, False))
                if k == 1 and sizes[0] > 0:
                    out.append((sizes, pl, True))
    for _ in range(120 if ctx.tier == "quick" else 3000):
        k = ctx.rng.randrange(2, 5)
        out.append((tuple(ctx.rng.randrange(0, 6) for _ in range(k)), ctx.rng.randrange(1, 5), False))
    return out, False


def single_damages(sizes):
    out = []
    for i, s in enumerate(sizes):
        out += [("trunc", i, n) for n in range(s)]
        out.append(("rm", i))
        out += [("flip", i, o) for o in range(s)]
    return out


def apply_damage(data, dmg):
    """one damage on the content of its file -> bytes | None"""
    if dmg[0] == "trunc":
        return data[:dmg[2]]
    if dmg[0] == "rm":
        return None
    o = dmg[2]
    return data[:o] + bytes([data[o] ^ 0xFF]) + data[o + 1:]


def judge(ctx, mode, where, inp, entries, origs, impl, ref, guard_ok=True):
    """
    the property's observable on one evaluated state.  impl: result of impl_run; ref: (matched, total, verdicts)
    of the reference verifier.  Returns True if something was reported.
    """
    if "error" in impl:
        ctx.fail(where + "-recheck-raised", inp, "a percentage", impl["error"])
        return True
    bad = False
    res = impl["result"]
    m_ref, t_ref, v_ref = ref
    intact = all(zero_filled(o, e["disk"]) == o for e, o in zip(entries, origs))
    if impl["results()"] != res and not (impl["results()"] != impl["results()"]):
        ctx.fail(where + "-results-vs-iter_hashes", inp, res, impl["results()"])
        bad = True
    if mode == "C05":
        if intact and t_ref > 0 and not (isinstance(res, float) and res == 100):
            ctx.fail(where + "-intact-not-100", inp, 100.0, res)
            bad = True
    elif mode == "C04":
        if qualifies_c04(entries, origs):
            if m_ref >= t_ref:
                ctx.broken.append(f"harness: qualifying damage but the reference verifier matches everything: {inp}")
            if not (isinstance(res, (int, float)) and res < 100):
                ctx.fail(where + "-damaged-reports-100", inp, "< 100", res)
                bad = True
    else:   # C16
        verdicts = [(c == p, s) for c, p, s in impl["trace"]]
        if guard_ok is True:
            if res != ratio(m_ref, t_ref):
                ctx.fail(where + "-percentage-not-the-share", inp, ratio(m_ref, t_ref), res,
                         detail=f"reference matched/total = {m_ref}/{t_ref}")
                bad = True
            if verdicts != v_ref:
                ctx.fail(where + "-verdict-stream", inp, v_ref[:40], verdicts[:40])
                bad = True
        else:
            # some pieces are excluded by the not-all-zero restriction: compare the others, and the sizes of all
            if [s for _, s in verdicts] != [s for _, s in v_ref] or \
                    any(g and a != b for g, a, b in zip(guard_ok, verdicts, v_ref)):
                ctx.fail(where + "-verdict-stream", inp, v_ref[:40], verdicts[:40], detail="pieces under the restriction only")
                bad = True
    return bad


SMALL_METAFILE = {None: "reference encoder v1", "attr": "reference encoder v1, attr x/h/xh on ordinary files",
                  "attr-pad": "reference encoder v1, attr x/h/xh on ordinary files, pad entries (attr p) between files"}


def small_metafile(files, pl, single, variant):
    if not variant:
        return oracle.ref_metafile("p", files, pl, 1, single=single)
    return ref_attr_metafile("p", files, pl, single, pads=variant == "attr-pad")


def tie_small_v1(ctx, mode, model_ok):
    """
    FeedChecker / Checker.iter_hashes vs the extracted model vs the reference verifier on reference-encoded v1
    metafiles with tiny piece lengths: every layout, intact and with every single damage.
    """
    layouts, exhaustive = small_layouts(ctx, thorough_exhaustive=True)
    feed_lines, piece_lines, spec_lines, records = [], [], [], []
    nsample = 0
    with core.Scratch("vrcs_") as tmp:
        mf = os.path.join(tmp, "m.torrent")
        for ln, (sizes, pl, single) in enumerate(layouts):
            root = os.path.join(tmp, f"L{ln}", "p")
            datas = [small_data(i, s) for i, s in enumerate(sizes)]
            files = [((f"f{i}",), d) for i, d in enumerate(datas)]
            trees.write_tree(root, {(): datas[0]} if single else dict(files))
            if mode == "C05":
                states = [None]
            elif mode == "C04":
                states = single_damages(sizes)
            else:
                states = [None] + single_damages(sizes)
            if not exhaustive and len(states) > 7:
                states = states[:1] + ctx.rng.sample(states[1:], 6)
            # the plain reference encoding of every layout; for a part of the multi-file layouts ALSO the encodings of another
            # tool: attr x / h / xh on the ordinary files, without and with BEP 47 pad entries between the files
            variants = [None]
            if len(sizes) >= 2 and sum(sizes) > 0 and ln % 4 in (0, 2):
                variants.append("attr" if ln % 4 == 0 else "attr-pad")
            for variant in variants:
                raw = small_metafile(files, pl, single, variant)
                with open(mf, "wb") as fd:
                    fd.write(raw)
                meta = oracle.bdecode_strict(raw)
                vstates = states if variant is None or len(states) <= 3 else states[:1] + states[1 + ln % 3::3]
                for dmg in vstates:
                    if single and dmg is not None and dmg[0] == "rm":
                        continue        # the content path itself would not exist
                    if dmg is not None:
                        p = path_of(root, (f"f{dmg[1]}",), single)
                        write_file(p, apply_damage(datas[dmg[1]], dmg))
                    entries = v1_entries(meta, root, single)
                    origs = datas if variant is None else origs_for(entries, dict(files))
                    impl = impl_run(mf, root, want_pieces=True)
                    ref = oracle.verify_v1(meta, root)
                    inp = {"scope": "small-v1", "piece_length": pl, "sizes": list(sizes), "single": single, "damage": dmg,
                           "metafile": SMALL_METAFILE[variant]}
                    if variant:
                        inp["attr_variant"] = variant
                    cl = classify(entries, origs, pl, per_file=False)
                    if variant:
                        cl = set(cl) | {"ordinary files carry attr x/h" + (" + pad entries (attr p) between files" if variant == "attr-pad" else "")}
                    judge(ctx, mode, "v1", inp, entries, origs, impl, ref)
                    nsample += 1
                    ctx.case(key=("small", sizes, pl, single, dmg, variant), classes=sorted(cl), nontrivial=bool(cl),
                             sample=inp if nsample in (40, 400) else None)
                    f = v1_model_fields(meta, entries)
                    feed_lines.append(f)
                    piece_lines.append(f[:3])
                    spec_lines.append(f)
                    records.append((inp, impl, ref))
                    if dmg is not None:
                        write_file(p, datas[dmg[1]])
            shutil.rmtree(os.path.join(tmp, f"L{ln}"), ignore_errors=True)
    if exhaustive:
        ctx.exhaustive = True
        ctx.notes.append(f"small scope enumerated completely: {len(layouts)} layouts (<= 4 files, sizes 0..5, pl 1..4, "
                         f"single-file form for 1 file), {len(records)} (layout, metafile, disk state) triples incl. the attr x/h/xh (+ pad entry) "
                         f"encodings of a part of the multi-file layouts")
    compare_v1_models(ctx, model_ok, feed_lines, piece_lines, spec_lines, records)


def compare_v1_models(ctx, model_ok, feed_lines, piece_lines, spec_lines, records):
    if not model_ok or not records:
        return
    feed = modelrun.run("feed", feed_lines)
    pcs = modelrun.run("feedpieces", piece_lines)
    spec = modelrun.run("specv1", spec_lines)
    if feed is None or pcs is None or spec is None:
        ctx.broken.append("extracted model driver (recheck: feed/feedpieces/specv1) failed to run")
        return
    for (inp, impl, ref), fl, pl_, sl in zip(records, feed, pcs, spec):
        if fl.startswith("ERROR") or pl_.startswith("ERROR") or sl.startswith("ERROR"):
            ctx.broken.append(f"model driver error on {inp}: {fl[:80]} {pl_[:80]} {sl[:80]}")
            continue
        ctx.traces_validated += 1
        mtr, mm, mc = parse_model_trace(fl)
        if "error" in impl:
            ctx.disagree("Model/Recheck.v feed_trace vs FeedChecker (implementation raised)", inp, fl[:300], impl["error"])
            continue
        if mtr != impl["trace"]:
            ctx.disagree("Model/Recheck.v feed_trace vs Checker.iter_hashes over FeedChecker (chunk, piece, size stream)",
                         inp, [(a[:12], b[:12], s) for a, b, s in mtr][:30], [(a[:12], b[:12], s) for a, b, s in impl["trace"]][:30])
        elif ratio(mm, mc) != impl["result"]:
            ctx.disagree("Model/Recheck.v iter_hashes (matched, consumed) vs Checker._result", inp,
                         f"{mm}/{mc} -> {ratio(mm, mc)}", impl["result"])
        mp = [] if pl_ == "-" else pl_.split(",")
        if "pieces" in impl and mp != impl["pieces"]:
            ctx.disagree("Model/Recheck.v feed_pieces vs FeedChecker.iter_pieces (piece bytes)", inp,
                         [x[:24] for x in mp][:20], [x[:24] for x in impl["pieces"]][:20])
        # the specification the theorems are stated against vs the reference verifier the search judges by
        str_, sm, sc = parse_model_trace(sl)
        if [(a == b, s) for a, b, s in str_] != ref[2] or (sm, sc) != (ref[0], ref[1]):
            ctx.broken.append(f"Spec/RecheckSpec.v spec_trace_v1 and the reference verifier disagree on {inp}")


# ---------------------------------------------------------- generated damage (real granularity)
def offsets_of_interest(L, pl, rng):
    c = {0, L - 1, L // 2, pl - 1, pl, pl + 1, B - 1, B, 2 * pl - 1, 2 * pl, (L // pl) * pl - 1, (L // pl) * pl,
         ((L - 1) // pl) * pl, L - 2}
    c = sorted(x for x in c if 0 <= x < L)
    return c + [rng.randrange(L) for _ in range(3)]


def gen_damage_set(rng, files, pl, ndmg, single):
    """
    files: list of (comps, data).  ndmg damages on distinct non-empty files (fewer if there are fewer), each
    flip / truncate / remove; now and then an EMPTY file is removed as well (no damage, but a hand-over path).
    returns (state: list of bytes|None aligned with files, description list)
    """
    state = [d for _, d in files]
    desc = []
    nonempty = [i for i, (_, d) in enumerate(files) if d]
    for i in rng.sample(nonempty, min(ndmg, len(nonempty))):
        d = files[i][1]
        L = len(d)
        r = rng.random()
        if r < 0.4:
            o = rng.choice(offsets_of_interest(L, pl, rng))
            state[i] = d[:o] + bytes([d[o] ^ rng.choice([0xFF, 0x01, 0x80])]) + d[o + 1:]
            desc.append(["flip", i, o])
        elif r < 0.75 or single:
            n = rng.choice([x for x in offsets_of_interest(L, pl, rng)] + [0, 0])
            state[i] = d[:n]
            desc.append(["trunc", i, n])
        else:
            state[i] = None
            desc.append(["rm", i])
    empties = [i for i, (_, d) in enumerate(files) if not d]
    if empties and not single and rng.random() < 0.3:
        i = rng.choice(empties)
        state[i] = None
        desc.append(["rm-empty", i])
    return state, desc


ATTR_KINDS = ["ref-v1-attr", "ref-v1-attr-pad"]
KINDS = ["v1", "v1-align", "v2-class", "v2-asm", "hybrid-class", "hybrid-asm", "ref-v1", "ref-v2", "ref-hybrid"] + ATTR_KINDS
ATTR_CYCLE = (b"x", None, b"h", b"xh")


def file_attrs(files):
    """the BEP 47 attributes ANOTHER encoder records on ORDINARY payload files: x (executable), h (hidden), both, none --
       cycling over the files; at least one non-empty file carries one"""
    attrs = [ATTR_CYCLE[i % len(ATTR_CYCLE)] for i in range(len(files))]
    if not any(a and d for a, (_, d) in zip(attrs, files)):
        for i, (_, d) in enumerate(files):
            if d:
                attrs[i] = b"x"
                break
    return attrs


def ref_attr_metafile(name, files, pl, single, pads):
    """
    reference-encoded v1 metafile "as another tool writes it": the ordinary files of the `files` list carry `attr` x / h / xh
    (file_attrs), and -- pads -- a BEP 47 padding entry (attr p, path .pad/<n>) follows every file but the last that does not
    end on a piece boundary; `pieces` covers the stream with the padding.  Single file: `attr` x beside info.length.
    """
    info = {b"name": name.encode(), b"piece length": pl}
    if single:
        stream = files[0][1]
        info[b"length"] = len(stream)
        info[b"attr"] = b"x"
    else:
        flist, stream = [], b""
        for i, ((comps, data), a) in enumerate(zip(files, file_attrs(files))):
            e = {b"length": len(data), b"path": [c.encode() for c in comps]}
            if a:
                e[b"attr"] = a
            flist.append(e)
            stream += data
            gap = -len(data) % pl
            if pads and gap and i != len(files) - 1:
                flist.append({b"attr": b"p", b"length": gap, b"path": [b".pad", str(gap).encode()]})
                stream += bytes(gap)
        info[b"files"] = flist
    info[b"pieces"] = b"".join(oracle.v1_pieces(stream, pl))
    return oracle.bencode({b"info": info})


def order_files(tree):
    """tree order of BEP 52 (raw byte order per component), which is also the order the reference v1 list uses"""
    return sorted(tree.items(), key=lambda kv: [c.encode("utf-8", "surrogateescape") for c in kv[0]])


def make_metafile(kind, root, name, files, pl, single, out):
    """returns raw bytes of the metafile written to `out`"""
    if kind.startswith("ref-"):
        if kind in ATTR_KINDS:
            raw = ref_attr_metafile(name, files, pl, single, pads=kind.endswith("-pad"))
        else:
            version = {"ref-v1": 1, "ref-v2": 2, "ref-hybrid": 3}[kind]
            raw = oracle.ref_metafile(name, files, pl, version, single=single)
        with open(out, "wb") as fd:
            fd.write(raw)
        return raw
    return trees.create(kind, root, out, pl)


def view_of(meta):
    return "v2" if b"meta version" in meta[b"info"] else "v1"


def origs_for(entries, by_comps):
    return [bytes(e["L"]) if e["pad"] else by_comps[e["comps"]] for e in entries]


class Scenario:
    """one generated payload on disk with its metafiles"""

    def __init__(self, base, rng, pl=None, sizes=None, kinds=None, name=None, never_single=False, tree=None):
        self.base = base
        self.pl = pl or rng.choice([16384, 16384, 32768, 65536])
        if tree is not None:
            self.gen_classes = set()
            rng.random()
        elif sizes is not None:
            if len(sizes) == 1 and rng.random() < 0.4 and not never_single:
                tree = {(): rng.randbytes(sizes[0])}
            else:
                tree = {(f"f{i:02d}",): rng.randbytes(s) for i, s in enumerate(sizes)}
            self.gen_classes = set()
        else:
            for _ in range(20):
                tree, self.gen_classes = trees.gen_tree(rng, self.pl, max_files=6, max_total=8)
                if sum(len(v) for v in tree.values()) > 0:
                    break
        self.tree = tree
        self.single = list(tree) == [()]
        rand_name = rng.choice(["payload.bin", "a b.dat", "x"]) if self.single else rng.choice(["payload", "a b", "Z.d", "x"])
        self.name = name or rand_name       # the random name is always drawn, so that a replay consumes the rng alike
        self.root = os.path.join(base, self.name)
        self.parent = base
        self.files = [((self.name,), tree[()])] if self.single else order_files(tree)
        self.by_comps = {(): tree[()]} if self.single else dict(tree)
        trees.write_tree(self.root, tree)
        self.kinds = kinds or KINDS
        self.metas = {}
        self.errors = {}
        for k in self.kinds:
            out = os.path.join(base, f"m-{k}.torrent")
            try:
                raw = make_metafile(k, self.root, self.name, self.files, self.pl, self.single, out)
                self.metas[k] = (out, decode_meta(raw))
            except Exception as e:  # noqa
                self.errors[k] = f"{type(e).__name__}: {e}"

    def total(self):
        return sum(len(d) for _, d in self.files)

    def set_state(self, state):
        """state: list aligned with self.files (bytes | None)"""
        for (comps, _), d in zip(self.files, state):
            write_file(path_of(self.root, comps, self.single), d)

    def restore(self):
        self.set_state([d for _, d in self.files])

    def entries(self, kind):
        mf, meta = self.metas[kind]
        if view_of(meta) == "v2":
            es = v2_entries(meta, self.root, self.single)
        else:
            es = v1_entries(meta, self.root, self.single)
        by = {(): self.tree[()]} if self.single else self.by_comps
        if self.single:
            # single file: v1 layout uses (), the v2 tree uses (name,)
            by = {(): self.tree[()], (self.name,): self.tree[()]}
        return es, origs_for(es, by)

    def describe(self, kind, desc, extra=None):
        d = {"scope": "generated", "piece_length": self.pl, "name": self.name, "single": self.single,
             "files": {"/".join(c): len(x) for c, x in self.files}, "metafile": kind, "damage": desc}
        if extra:
            d.update(extra)
        return d


def reference(meta, root):
    return oracle.verify(meta, root)


# --------------------------------------------------------- model tie: real granularity (v1, v2)
def aimed_cases(pl):
    """
    (sizes, damage) pairs aimed at the hand-over paths of the two checkers (the case splits of DESIGN A.4 / A.5 and
    the layouts of D29 / D30 / D31): file ends on a piece boundary and the next file is absent / empty / short,
    empty files first / middle / last, payload shorter than a piece, every state x position.
    """
    return [
        ([pl, pl, pl], [("rm", 1)]),                                   # D30: boundary, then an absent file
        ([100, 0, 100], [("flip", 2, 99)]),                            # D31: damage after an empty file
        ([100, 0], [("flip", 0, 0)]),                                  # D29: last file empty, payload < piece
        ([100, 0], [("rm", 1)]),                                       # absent empty last file only
        ([pl + 1, 0, 0, 5], [("rm", 3)]),                              # absent last file after empty files
        ([0, 0, 2 * pl + 5], [("trunc", 2, pl)]),                      # two empty files first, short last file
        ([2 * pl, 3], [("rm", 0)]),                                    # absent first file
        ([5, 2 * pl + 1, 7], [("trunc", 1, 0)]),                       # zero bytes on disk, middle
        ([pl, 0, pl], [("rm", 0)]),                                    # absent first, empty after the damage
        ([3 * pl], [("trunc", 0, pl + 1)]),                            # one file, short
        ([pl - 1, 2, pl], [("flip", 1, 1)]),                           # piece shared by three files
        ([pl, pl], [("trunc", 1, 0)]),                                 # boundary, then zero bytes on disk, last
        ([2 * pl + 1, 5], [("trunc", 0, 0)]),                          # zero bytes on disk, first
        ([2 * pl + 5, pl + 7, pl + 9], [("trunc", 0, pl), ("trunc", 1, 1), ("trunc", 2, pl + 8)]),   # short x 3
        ([pl, 2 * pl, pl], [("rm", 0), ("rm", 2)]),                    # absent first and last, intact middle
        ([1, 0], []),                                                  # intact, total < pl, last file empty
        ([0, 5, 0], [("rm", 0), ("rm", 2), ("flip", 1, 4)]),           # absent empty files around a flip
        ([pl, pl + 1], [("flip", 1, pl)]),                             # final one-byte piece flipped
        ([2 * pl, 0, pl], [("rm", 2)]),                                # boundary, empty file, absent last
        ([B + 1, 2 * pl], [("trunc", 1, B)]),                          # on-disk part ends inside a piece
        ([pl + 3, 2 * pl], [("trunc", 1, 0)]),                         # zero bytes on disk, last, not on a boundary
        ([7, pl], [("trunc", 0, 0)]),                                  # zero bytes on disk, first
        ([pl, 3 * pl], [("trunc", 1, 2 * pl)]),                        # boundary, then a file short by a whole piece
    ] + absent_empty_cases(pl)


def absent_empty_cases(pl):
    """an ABSENT EMPTY file that is not the first file, with the damage in a file that sorts after it (the hand-over of
       HashChecker.next_file must go on to the following files)"""
    return [
        ([100, 0, 100], [("rm", 1), ("flip", 2, 50)]),
        ([pl + 1, 0, 0, 5], [("rm", 1), ("rm", 2), ("trunc", 3, 0)]),
        ([2 * pl + 5, 0, pl + 9], [("rm", 1), ("trunc", 2, pl + 1)]),  # between two multi-piece files, last one short
        ([0, 3, 0, 2 * pl], [("rm", 0), ("rm", 2), ("flip", 3, 2 * pl - 1)]),
        ([pl, 0, 7], [("rm", 1), ("rm", 2)]),                          # boundary, absent empty, absent last
    ]


P128, P64 = 131072, 65536


def blockcount_cases(tier):
    """
    v2/hybrid layouts (piece length 64 KiB / 128 KiB = 4 / 8 blocks per piece) in which a file SHORTER than one piece, or the
    LAST piece of a longer file, has a block count that is not a power of two (3, 5, 6, 7 blocks; exact, one byte less, one
    byte into the last block): the padding of the per-file merkle tree (FileHasher._pad_remaining) versus metafiles that
    were not written through FileHasher.  (pl, sizes, damage, damage variant also in the quick C16 run?)
    """
    out = [
        (P128, [2 * B + 1, 5 * B - 1, 6 * B, 7 * B - 1], [("trunc", 3, 4 * B + 1)], False),
        (P64, [3 * B, P64 + 3 * B - 1], [("flip", 1, P64 + 3 * B - 2)], True),
        (P128, [P128 + 5 * B + 1, 6 * B - 1], [("flip", 0, P128 + 5 * B)], False),
    ]
    if tier == "thorough":
        for k in (3, 5, 6, 7):
            out.append((P128, [(k - 1) * B + 1, k * B - 1, k * B], [("flip", 1, k * B - 2), ("trunc", 2, (k - 1) * B)], True))
            out.append((P128, [P128 + k * B - 1, 3], [("trunc", 0, P128 + B + 1)], True))
        out.append((P64, [2 * B + 1, 3 * B - 1, 3 * B, P64 + 2 * B + 1, 2 * P64 + 3 * B], [("rm", 2), ("flip", 4, 2 * P64)], True))
    return out


BLOCKCOUNT_KINDS = ["ref-v2", "hybrid-class", "ref-hybrid", "v2-class", "v2-asm", "hybrid-asm"]


def apply_desc(files, desc):
    state = [d for _, d in files]
    for d in desc:
        i = d[1]
        if d[0] == "rm":
            state[i] = None
        elif d[0] == "trunc":
            state[i] = files[i][1][:d[2]]
        else:
            x = files[i][1]
            mask = d[3] if len(d) > 3 else 0xFF          # (the damage sets at scale record the flipped bits)
            state[i] = x[:d[2]] + bytes([x[d[2]] ^ mask]) + x[d[2] + 1:]
    return state


V1_KINDS = ["v1", "v1-align", "ref-v1"] + ATTR_KINDS
V2_KINDS = ["v2-class", "v2-asm", "hybrid-class", "hybrid-asm", "ref-v2", "ref-hybrid"]


def tie_case(base, seed, mode, pl, sizes, kind, desc, v1side):
    """
    one case of tie_generated as a function of its seed (so that a replay file rebuilds it): an aimed layout (pl, sizes, kind,
    damage given) or, with sizes None, a random one.  Returns (scenario, kind, state, damage description)
    """
    rng = random.Random(seed)
    if sizes is None:
        pl = rng.choice([16384, 32768])
        pool = [s for s in trees.boundary_sizes(pl) if s <= 5 * pl]
        k = rng.randrange(1, 5)
        sizes = [rng.choice(pool) for _ in range(k)]
        if sum(sizes) == 0:
            sizes[rng.randrange(k)] = rng.choice(pool[1:])
        kind = rng.choice(V1_KINDS if v1side else V2_KINDS)
    sc = Scenario(base, rng, pl=pl, sizes=sizes, kinds=[kind], never_single=desc is not None)
    if kind in sc.errors:
        return sc, kind, None, desc
    if desc is not None:
        state = apply_desc(sc.files, desc)
        desc = [list(d) for d in desc]
    else:
        if mode == "C05":
            ndmg = 0
        elif mode == "C04":
            ndmg = rng.randrange(1, 4)
        else:
            ndmg = rng.choice([0, 1, 1, 2, 3])
        state, desc = gen_damage_set(rng, sc.files, sc.pl, ndmg, sc.single) if ndmg else ([d for _, d in sc.files], [])
    return sc, kind, state, desc


def tie_generated(ctx, mode, model_ok):
    """real BLOCK_SIZE cases: creators' and reference metafiles, aimed layouts + boundary sizes with 0..3 damages"""
    n = {"quick": 10, "thorough": 160}[ctx.tier]
    plan = []      # (pl, sizes, kind, damage description or None = random damages, v1 side?)
    a = 0
    for v1side in (True, False):
        pls = [16384 if v1side else 32768] + ([32768 if v1side else 16384] if ctx.tier == "thorough" else [])
        kinds = V1_KINDS if v1side else V2_KINDS
        for apl in pls:
            for sizes, desc in aimed_cases(apl):
                a += 1
                variants = []
                if mode != "C04":
                    variants.append([])
                if mode != "C05" and desc:
                    variants.append(desc)
                for dv in variants:
                    plan.append((apl, sizes, kinds[a % len(kinds)], dv, v1side))
    # block counts that are not a power of two below one piece / in the last piece (v2 side; 4 and 8 blocks per piece)
    for j, (bpl, sizes, desc, dmg_in_quick) in enumerate(blockcount_cases(ctx.tier)):
        kind = BLOCKCOUNT_KINDS[(j + ctx.seed) % len(BLOCKCOUNT_KINDS)]
        if mode != "C04":
            plan.append((bpl, sizes, kind, [], False))
        if mode == "C04" or (mode == "C16" and (dmg_in_quick or ctx.tier == "thorough")):
            plan.append((bpl, sizes, kind, desc, False))
    for i in range(n):
        plan.append((None, None, None, None, i % 2 == 0))
    v1_recs, v2_recs = [], []
    with core.Scratch("vrcg_") as tmp:
        os.environ["HOME"] = tmp
        for i, (pl, sizes, kind, desc, v1side) in enumerate(plan):
            tie_seed = ctx.rng.getrandbits(64)
            recipe = {"tie_seed": tie_seed, "tie_mode": mode, "tie_pl": pl, "tie_sizes": sizes, "tie_kind": kind,
                      "tie_damage": None if desc is None else [list(d) for d in desc], "tie_v1side": v1side}
            sc, kind, state, desc = tie_case(os.path.join(tmp, f"g{i}"), tie_seed, mode, pl, sizes, kind, desc, v1side)
            pl, sizes = sc.pl, [len(d) for _, d in sc.files]
            if kind in sc.errors:
                ctx.fail("create-raised", sc.describe(kind, None, recipe), "a metafile", sc.errors[kind])
                continue
            mf, meta = sc.metas[kind]
            sc.set_state(state)
            entries, origs = sc.entries(kind)
            per_file = view_of(meta) == "v2"
            impl = impl_run(mf, sc.root, want_pieces=not per_file)
            ref = reference(meta, sc.root)
            inp = sc.describe(kind, desc, recipe)
            guard = True
            if per_file:
                g = v2_piece_guard(entries, origs, pl)
                guard = True if all(g) else g
            judge(ctx, mode, "v2" if per_file else "v1", inp, entries, origs, impl, ref, guard_ok=guard)
            cl = classify(entries, origs, pl, per_file)
            cl = {("v2: " if per_file else "") + c for c in cl} | {"real granularity " + ("v2/hybrid" if per_file else "v1")}
            ctx.case(key=("gen", i, kind, tuple(sizes), pl, str(desc)), classes=sorted(cl), nontrivial=True,
                     sample=inp if i in (1, 2) else None)
            if per_file:
                v2_recs.append((inp, impl, ref, v2_model_fields(meta, entries), guard))
            else:
                v1_recs.append((inp, impl, ref, v1_model_fields(meta, entries)))
            shutil.rmtree(sc.base, ignore_errors=True)
    if not model_ok:
        return
    compare_v1_models(ctx, model_ok, [r[3] for r in v1_recs], [r[3][:3] for r in v1_recs], [r[3] for r in v1_recs],
                      [r[:3] for r in v1_recs])
    if v2_recs:
        hc = modelrun.run("hashcheck_disk", [r[3] for r in v2_recs])
        sp = modelrun.run("specv2_disk", [r[3] for r in v2_recs])
        if hc is None or sp is None:
            ctx.broken.append("extracted model driver (recheck: hashcheck_disk/specv2_disk) failed to run")
            return
        for (inp, impl, ref, _, guard), hl, sl in zip(v2_recs, hc, sp):
            if hl.startswith("ERROR") or sl.startswith("ERROR"):
                ctx.broken.append(f"model driver error on {inp}: {hl[:80]} {sl[:80]}")
                continue
            ctx.traces_validated += 1
            mtr, mm, mc = parse_model_trace(hl)
            if "error" in impl:
                ctx.disagree("Model/Recheck.v hash_trace vs HashChecker (implementation raised)", inp, hl[:300], impl["error"])
                continue
            if mtr != impl["trace"]:
                ctx.disagree("Model/Recheck.v hash_trace (over the FileHasher model) vs Checker.iter_hashes over HashChecker",
                             inp, [(a[:12], b[:12], s) for a, b, s in mtr][:30], [(a[:12], b[:12], s) for a, b, s in impl["trace"]][:30])
            elif ratio(mm, mc) != impl["result"]:
                ctx.disagree("Model/Recheck.v iter_hashes (matched, consumed) vs Checker._result", inp,
                             f"{mm}/{mc} -> {ratio(mm, mc)}", impl["result"])
            str_, sm, sc_ = parse_model_trace(sl)
            sv = [(a == b, s) for a, b, s in str_]
            ok = [s for _, s in sv] == [s for _, s in ref[2]] and \
                all(a == b for g, a, b in zip(guard if guard is not True else [True] * len(sv), sv, ref[2]) if g)
            if not ok:
                ctx.broken.append(f"Spec/RecheckSpec.v spec_trace_v2 and the reference verifier disagree (outside the "
                                  f"all-zero restriction) on {inp}")


# ------------------------------------------------- model tie: Checker.__init__ / find_root / check_paths
def _b(x):
    return x.encode("utf-8", "surrogateescape") if isinstance(x, str) else bytes(x)


def _hexlist(comps):
    return ",".join(_b(c).hex() for c in comps) if comps else "-"


def fs_table_of(base):
    """every path under `base` (components relative to it; base itself = no component): kind and, for directories,
       the entries as os.listdir returns them"""
    items = []
    for dirpath, dirnames, filenames in os.walk(base):
        rel = os.path.relpath(dirpath, base)
        comps = [] if rel == "." else rel.split(os.sep)
        items.append((comps, "d", os.listdir(dirpath)))
        for f in filenames:
            items.append((comps + [f], "f", []))
    return ";".join(f"{_hexlist(c)}:{k}:{_hexlist(es)}" for c, k, es in items) or "-"


def impl_checker_init(mf, path, base):
    """Checker(mf, path): (root components relative to base, [(components, length, pieces root hex or ~, "p" if the
       entry is a padding entry for FeedChecker.iter_pieces else "-")], total) or an error string"""
    core.use_repo_in_process()
    import importlib
    recheck = importlib.import_module("torrentfile.recheck")

    def rel(p):
        r = os.path.relpath(str(p), base)
        return [] if r == "." else r.split(os.sep)
    try:
        chk = trees.quiet(lambda: recheck.Checker(mf, path))
    except Exception as e:  # noqa
        return f"{type(e).__name__}: {e}"
    ents = []
    for i in range(len(chk.fileinfo)):
        fi = chk.fileinfo[i]
        pr = fi.get("pieces root")
        # the very expression of FeedChecker.iter_pieces (recheck.py, repair of D39)
        pad = "p" in str(fi.get("attr") or "")
        ents.append((rel(fi["path"]), fi["length"], "~" if pr is None else _b(pr).hex(), "p" if pad else "-"))
    return rel(chk.root), ents, chk.total


CP_LAYOUTS = ["plain", "single", "inner-same-name-dir", "inner-same-name-file", "parent-same-name", "single",
              "only-file-same-name", "only-file-same-name-nested", "unnormalised-names"]
SAME_NAME_TREES = {      # a DIRECTORY `data` whose only file is named like it: data/data, and data/data/data
    "only-file-same-name": ("data",),
    "only-file-same-name-nested": ("data", "data"),
}


def checkpaths_scenario(base, cp_seed, i, kinds=None):
    """scenario i of tie_checkpaths as a function of its seed (a replay file rebuilds it): (scenario, layout label)"""
    rng = random.Random(cp_seed)
    layout = CP_LAYOUTS[i % len(CP_LAYOUTS)]
    pl = rng.choice([16384, 32768])
    if layout == "single":
        # (the first single-file layout of every round always has >= 3 pieces, so that its truncation on a piece
        # boundary leaves two or more whole verifying pieces on disk: a length taken from the disk then reports 100)
        pool = [pl * 3 + 5, 4 * pl + 1, 5 * pl, 3 * pl] if i % len(CP_LAYOUTS) == 1 else [pl * 3 + 5, 2 * pl, 4 * pl + 1, 7]
        sc = Scenario(base, rng, pl=pl, tree={(): rng.randbytes(rng.choice(pool))}, kinds=kinds)
    elif layout == "plain":
        sc = Scenario(base, rng, pl=pl, kinds=kinds)
    elif layout == "parent-same-name":
        base = os.path.join(base, "payload")
        sc = Scenario(base, rng, pl=pl, name="payload", never_single=True, sizes=[pl + 1, 0, 2 * pl], kinds=kinds)
    elif layout == "unnormalised-names":
        # decomposed (NFD) file / directory / payload names, and (every other round) equivalent names side by side as different files
        name, comps = NAME_SHAPES[("nfd-file-and-directory", "equivalent-names-side-by-side", "nfd-payload-directory")[(i // len(CP_LAYOUTS)) % 3]]
        sc = Scenario(base, rng, pl=pl, name=name, kinds=kinds,
                      tree={c: rng.randbytes(rng.choice([pl + 9, 100, 2 * pl, 7, pl])) for c in comps})
    elif layout in SAME_NAME_TREES:
        # the payload is a directory that holds exactly ONE file, named like the directory: the v2 file tree of its metafile is
        # {name: {"": leaf}} -- the very shape of a single-FILE payload; only the disk tells them apart
        sc = Scenario(base, rng, pl=pl, name="data", kinds=kinds,
                      tree={SAME_NAME_TREES[layout]: rng.randbytes(rng.choice([2 * pl + 100, pl + 9, 7, 3 * pl]))})
    else:
        # an entry named like the payload inside it (a directory or a file), listed in the metafiles as well
        inner = ("payload",) if layout.endswith("file") else ("payload", "x")
        sc = Scenario(base, rng, pl=pl, name="payload", kinds=kinds,
                      tree={("a.bin",): rng.randbytes(pl + 9), inner: rng.randbytes(2 * pl + 100), ("z",): b""})
    return sc, layout


def checkpaths_states(sc, mode):
    states = [("intact", [d for _, d in sc.files])]
    if mode != "C05":
        big = max(range(len(sc.files)), key=lambda j: len(sc.files[j][1]))
        L = len(sc.files[big][1])
        for label, cut in (("truncated on a piece boundary", (L // sc.pl - 1) * sc.pl if L >= 2 * sc.pl else 0),
                           ("truncated inside a piece", max(L - 5, 0)), ("removed", None)):
            st = [d for _, d in sc.files]
            st[big] = None if cut is None else sc.files[big][1][:cut]
            states.append((label, st))
    return states


def tie_checkpaths(ctx, mode, model_ok):
    """
    Checker.__init__ vs the extracted Model/CheckPaths.v on real scratch directories: every metafile kind x {payload root,
    parent directory} x {intact, damaged: truncated on / off a piece boundary, removed files, payload absent}, single-file
    payloads incl. the conformant v2 form without info.length, and the name-collision layouts (an entry named like the payload
    INSIDE the payload; a parent directory named like the payload; a file where the payload directory should be; a payload
    DIRECTORY whose only file is named like it -- data/data, data/data/data -- whose v2 file tree has the shape of a single-file
    metafile; decomposed (NFD) file / directory / payload names and canonically equivalent names side by side: NAME_SHAPES).  The kinds include the v1 metafiles of another encoder with attr x / h / xh on ordinary files (fi_attr, fi_padding).
    Every (layout, state, root | parent) is also judged by the property itself against the reference verifier.
    """
    n = {"quick": len(CP_LAYOUTS), "thorough": 64}[ctx.tier]
    jobs = []       # (description, metafile bytes, path comps, table, impl)
    with core.Scratch("vrcp_") as tmp:
        os.environ["HOME"] = tmp
        for i in range(n):
            cp_seed = ctx.rng.getrandbits(64)
            sc, layout = checkpaths_scenario(os.path.join(tmp, f"p{i}", "w"), cp_seed, i)
            states = checkpaths_states(sc, mode)
            for label, st in states:
                sc.set_state(st)
                table = fs_table_of(sc.base if layout != "parent-same-name" else os.path.dirname(sc.base))
                tb = sc.base if layout != "parent-same-name" else os.path.dirname(sc.base)
                for kind, (mf, _) in sc.metas.items():
                    raw = oracle.read(mf)
                    for where, path in (("root", sc.root), ("parent", sc.parent)) + \
                            ((("missing", os.path.join(sc.base, "nope")),) if label == "intact" and kind == sc.kinds[0] else ()):
                        relp = os.path.relpath(path, tb)
                        comps = [] if relp == "." else relp.split(os.sep)
                        impl = impl_checker_init(mf, path, tb)
                        desc = {"scope": "checker-init", "layout": layout, "metafile": kind, "state": label, "content_path": where,
                                "piece_length": sc.pl, "name": sc.name, "single": sc.single,
                                "files": {"/".join(c): len(x) for c, x in sc.files}, "cp_seed": cp_seed, "cp_index": i, "cp_mode": mode}
                        jobs.append((desc, raw, comps, table, impl))
                        # the property itself on these layouts (independent of the model): the reference verifier judges
                        # (a removed single-file payload leaves nothing to check: the tool raises FileNotFoundError, which is not a report)
                        if (where == "root" or (where == "parent" and layout != "parent-same-name")) and \
                                not (sc.single and label == "removed"):
                            meta = sc.metas[kind][1]
                            entries, origs = sc.entries(kind)
                            per_file = view_of(meta) == "v2"
                            guard = True
                            if per_file:
                                g = v2_piece_guard(entries, origs, sc.pl)
                                guard = True if all(g) else g
                            run_ = impl_run(mf, path)
                            judge(ctx, mode, f"layout-{layout}-via-{where}", desc, entries, origs, run_, reference(meta, sc.root),
                                  guard_ok=guard)
                        ctx.case(key=("checkpaths", i, kind, label, where),
                                 classes=["checker-init layout " + layout, "checker-init state " + label, "checker-init via " + where,
                                          "metafile " + kind], nontrivial=True)
            sc.restore()
            shutil.rmtree(os.path.join(tmp, f"p{i}"), ignore_errors=True)
    if not model_ok:
        return
    outs = modelrun.run("checker", [(raw.hex(), _hexlist(comps), table) for _, raw, comps, table, _ in jobs])
    if outs is None:
        ctx.broken.append("extracted model driver (checkpaths) failed to run")
        return
    for (desc, raw, comps, table, impl), o in zip(jobs, outs):
        ctx.traces_validated += 1
        if o.startswith("ERROR"):
            ctx.broken.append(f"checkpaths driver error on {desc}: {o[:100]}")
            continue
        if isinstance(impl, str):
            got = "none"
        else:
            root, ents, total = impl
            got = _hexlist(root) + "|" + (";".join(f"{_hexlist(c)}:{l}:{r}:{a}" for c, l, r, a in ents) or "-") + "|" + str(total)
        if o != got:
            def show(x):
                return x if x == "none" else [[bytes.fromhex(h).decode("utf-8", "replace") for h in f.split(":")[0].split(",") if h != "-"]
                                               + f.split(":")[1:2] for f in x.split("|")[1].split(";") if f != "-"][:8] + [x.split("|")[0], x.split("|")[2]]
            ctx.disagree("Model/CheckPaths.v checker_init vs Checker.__init__ (root, per-file path/length/pieces root, total)",
                         desc, show(o), show(got) if not isinstance(impl, str) else impl)


# ----------------------------------------------------------------------------------- end to end
def utf8_digest_payload(rng):
    """a short payload whose SHA-1 digest is valid UTF-8 (pyben hands such a `pieces` string over as str)"""
    salt = rng.randrange(1 << 30)
    for n in range(3_000_000):
        d = b"x%d-%d" % (salt, n)
        try:
            hashlib.sha1(d).digest().decode("utf-8")
            return d
        except UnicodeDecodeError:
            continue
    return None


def utf8_digest_block(rng, size):
    """`size` ASCII bytes whose SHA-1 digest is valid UTF-8 AND contains a non-ASCII character (so that text and byte offsets
       of a `pieces` string decoded as str differ)"""
    salt = rng.randrange(1 << 30)
    base = hashlib.sha1(b"." * (size - 32))
    for n in range(6_000_000):
        tail = (b"z%d-%d" % (salt, n)).rjust(32, b"-")
        h = base.copy()
        h.update(tail)
        dg = h.digest()
        if dg.isascii():
            continue
        try:
            dg.decode("utf-8")
        except UnicodeDecodeError:
            continue
        return b"." * (size - 32) + tail
    return None


# ------------------------------------------------- recorded hash strings that are valid UTF-8 (pyben returns str)
# Contents whose digests qualify are rare (SHA-1: ~1e-5, SHA-256: ~1e-8 per try), so they were searched once
# (search_utf8_contents below; `python -c "from props import recheck_common as rc; rc.write_utf8_cache(600)"` from harness/)
# and are kept as RECIPES in harness/data/utf8_digests.json; every run re-derives the contents and re-checks the digests.
DATA_FILE = os.path.join(os.path.dirname(os.path.dirname(os.path.abspath(__file__))), "data", "utf8_digests.json")
UTF8_CLASSES = ("sha1-block", "sha1-block32", "sha1-short", "sha256-short", "sha256-block", "sha256-pair")
UTF8_TAGS = {"sha1-block": ".blk", "sha1-block32": ":b32", "sha1-short": "x", "sha256-short": "payload", "sha256-block": "=blk", "sha256-pair": "+two"}


def utf8_text(dg):
    """the text pyben makes of a recorded byte string (str) -- None when the bytes are not valid UTF-8 and stay bytes"""
    try:
        return dg.decode("utf-8")
    except UnicodeDecodeError:
        return None


def char_widths(dg):
    """the set of encoded widths (1..4 bytes) of the characters of a valid UTF-8 byte string"""
    return {len(c.encode("utf-8")) for c in dg.decode("utf-8")}


def recipe_bytes(recipe):
    """[size, filler, tail] -> `size` ASCII bytes: the filler character repeated, then the tail (size == len(tail): the tail alone)"""
    size, filler, tail = recipe
    t = tail.encode("ascii")
    return filler.encode("ascii") * (size - len(t)) + t


def recipe_digest(klass, recipe):
    """the recorded hash a recipe was searched for: SHA-1 of the content (a v1 piece), SHA-256 of the content (the merkle root of a
       file of at most one block = the piece-layer hash of such a piece at one block per piece), or -- sha256-pair: the recipe is
       two recipes of one block each -- the BEP 52 root of the two blocks"""
    if klass.startswith("sha1"):
        return hashlib.sha1(recipe_bytes(recipe)).digest()
    if klass == "sha256-pair":
        return oracle.pieces_root(recipe_bytes(recipe[0]) + recipe_bytes(recipe[1]))
    return oracle.pieces_root(recipe_bytes(recipe))


def _search_worker(args):
    """one slice of the counter space of one class: the recipes whose digest is valid UTF-8 with a non-ASCII character"""
    import time
    klass, tag, start, stop, deadline = args
    found = []
    size = {"sha1-block": B, "sha1-block32": 2 * B, "sha256-block": B, "sha256-pair": B}.get(klass)
    new = hashlib.sha1 if klass.startswith("sha1") else hashlib.sha256
    filler = tag[0]
    base = new(filler.encode() * (size - 32)) if size else None
    first = hashlib.sha256(b"#" * B).digest() if klass == "sha256-pair" else None
    for n in range(start, stop):
        if n % 65536 == 0 and time.time() > deadline:
            break
        if size:
            tail = (b"%s-%d\n" % (tag.encode(), n)).rjust(32, filler.encode())
            h = base.copy()
            h.update(tail)
        else:
            tail = b"%s-%d\n" % (tag.encode(), n)
            h = new(tail)
        dg = h.digest()
        if first is not None:
            dg = hashlib.sha256(first + dg).digest()
        if dg.isascii():
            continue
        try:
            dg.decode("utf-8")
        except UnicodeDecodeError:
            continue
        one = [size or len(tail), filler, tail.decode("ascii").lstrip(filler) if size else tail.decode("ascii")]
        found.append([[B, "#", ""], one] if first is not None else one)
    return klass, found


def search_utf8_contents(seconds, want=None, procs=None):
    """search (in parallel, for at most `seconds`) contents of every class of UTF8_CLASSES whose recorded hash is valid UTF-8 with
       a multi-byte character -> {class: [recipe]} (every recipe re-checked through recipe_digest)"""
    import time
    import multiprocessing
    want = want or {"sha1-block": 12, "sha1-block32": 4, "sha1-short": 6, "sha256-short": 3, "sha256-block": 3, "sha256-pair": 1}
    procs = procs or max(1, (os.cpu_count() or 2) - 2)
    deadline = time.time() + seconds
    out = {k: [] for k in want}
    step = 1 << 22
    nxt = {k: 0 for k in want}
    with multiprocessing.Pool(procs) as pool:
        while time.time() < deadline and any(len(out[k]) < want[k] for k in want):
            jobs = []
            for k in want:
                if len(out[k]) >= want[k]:
                    continue
                per = procs if k.startswith("sha256") else 1
                for _ in range(per):
                    jobs.append((k, UTF8_TAGS[k], nxt[k], nxt[k] + step, deadline))
                    nxt[k] += step
            for k, found in pool.imap_unordered(_search_worker, jobs):
                out[k] += found
    for k in out:
        out[k] = [r for r in out[k] if (utf8_text(recipe_digest(k, r)) or "").isascii() is False][:max(want[k], 1) * 2]
    return out


def write_utf8_cache(seconds=600, keep=8):
    """search and keep, per class, at most `keep` recipes: first one per multi-byte width (2, 3, 4 bytes) that occurs, then the
       others in the order found"""
    found = search_utf8_contents(seconds, want={"sha1-block": 150, "sha1-block32": 80, "sha1-short": 80, "sha256-short": 3, "sha256-block": 3,
                                                 "sha256-pair": 1})
    for k, rs in found.items():
        chosen = []
        for w in (4, 3, 2):
            for r in rs:
                if w in char_widths(recipe_digest(k, r)) and r not in chosen:
                    chosen.append(r)
                    break
        found[k] = (chosen + [r for r in rs if r not in chosen])[:keep]
    import json
    os.makedirs(os.path.dirname(DATA_FILE), exist_ok=True)
    comment = ("recipes [size, filler, tail] of ASCII contents whose recorded hash (SHA-1 of a v1 piece; BEP 52 root / piece-layer hash) "
               "is valid UTF-8 with a multi-byte character; found by recheck_common.search_utf8_contents")
    with open(DATA_FILE, "w") as fd:           # one recipe per line
        fd.write('{\n "comment": %s,\n "recipes": {\n' % json.dumps(comment))
        ks = [k for k in UTF8_CLASSES if k in found]
        for i, k in enumerate(ks):
            fd.write('  %s: [\n' % json.dumps(k) + ",\n".join("   " + json.dumps(r) for r in found[k]))
            fd.write('\n  ]%s\n' % ("," if i < len(ks) - 1 else ""))
        fd.write(' }\n}\n')
    return {k: len(v) for k, v in found.items()}


def load_utf8_recipes(ctx=None, budget=6.0):
    """{class: [recipe]} from the data file, every recipe re-checked (the digest is recomputed here; a recipe that does not qualify
       is dropped and reported).  Without the file: a short search of the cheap SHA-1 classes only (noted)."""
    import json
    if DATA_FILE in _RECIPES:
        return _RECIPES[DATA_FILE]
    out = {k: [] for k in UTF8_CLASSES}
    try:
        with open(DATA_FILE) as fd:
            raw = json.load(fd)["recipes"]
    except Exception as e:  # noqa
        if ctx is not None:
            ctx.notes.append(f"aimed utf8 classes: {DATA_FILE} unreadable ({type(e).__name__}); searching the SHA-1 classes for {budget:.0f} s")
        raw = search_utf8_contents(budget, want={"sha1-block": 4, "sha1-short": 2}, procs=4)
    for k in UTF8_CLASSES:
        for r in raw.get(k, []):
            t = utf8_text(recipe_digest(k, r))
            if t is None or t.isascii():
                if ctx is not None:
                    ctx.broken.append(f"harness/data/utf8_digests.json: recipe {r} of class {k} does not give a valid-UTF-8 non-ASCII digest")
                continue
            out[k].append(r)
    _RECIPES[DATA_FILE] = out
    return out


_RECIPES = {}
REUSE_SALT = 0x5EED0C05
REUSE_PLANS = {          # how one held Checker object is asked, state after state (cycled)
    "results()": ["results()"],
    "iter_hashes()": ["iter_hashes()"],
    "alternating": ["iter_hashes()", "results()"],
}


def new_checker(mf, path):
    return trees.quiet(lambda: _recheck_mod().Checker(mf, path))


def ask(chk, via):
    """the verdict of an EXISTING Checker object for the disk as it is now: through results(), or by running iter_hashes()
       to its end and reading _result (what the GUI-style callers do)"""
    def go():
        if via == "results()":
            return chk.results()
        for _ in chk.iter_hashes():
            pass
        return chk._result
    try:
        return trees.quiet(go)
    except Exception as e:  # noqa
        return f"{type(e).__name__}: {e}"


class Held:
    """Checker objects of one (metafile, content path) that are kept and asked again after every change of the disk"""

    def __init__(self, mf, path, plans=None):
        self.objs, self.asked = {}, {}
        for plan in (plans or REUSE_PLANS):
            try:
                self.objs[plan] = new_checker(mf, path)
                self.asked[plan] = []
            except Exception:  # noqa  (nothing to keep: the construction is judged elsewhere)
                pass

    def ask_all(self):
        """[(plan, the asks so far incl. this one, answer)]"""
        out = []
        for plan, chk in self.objs.items():
            seq = REUSE_PLANS[plan]
            via = seq[len(self.asked[plan]) % len(seq)]
            self.asked[plan].append(via)
            out.append((plan, list(self.asked[plan]), ask(chk, via)))
        return out


def is_pct(x):
    return isinstance(x, (int, float)) and not isinstance(x, bool)


def reuse_c04(ctx, held, inp, entries, origs, earlier):
    """C04 on a reused object: after qualifying damage the object that saw the intact tree must report < 100"""
    q = qualifies_c04(entries, origs)
    for plan, asks, again in held.ask_all():
        if q and not (is_pct(again) and again < 100):
            ctx.fail("reused-checker-damaged-reports-100", dict(inp, reuse={"plan": plan, "asks": asks, "earlier_states": earlier}),
                     "< 100 (the same Checker object, asked again after the damage)", again)


def reuse_c05(ctx, held, inp, earlier):
    """C05 on a reused object: after the intact tree is back the object that saw damage must report exactly 100.0"""
    for plan, asks, again in held.ask_all():
        if not (isinstance(again, float) and again == 100):
            ctx.fail("reused-checker-restored-not-100", dict(inp, reuse={"plan": plan, "asks": asks, "earlier_states": earlier}),
                     "100.0 (the same Checker object, asked again after the intact content is back)", again)


def reuse_damage(case_seed, sc):
    """the damaged / missing state a C05 reuse sequence starts from (a function of the case seed, for the replay)"""
    r = random.Random(case_seed ^ REUSE_SALT)
    if not sc.single and r.random() < 0.25:
        return [None for _ in sc.files], [["rm", i] for i in range(len(sc.files))]
    return gen_damage_set(r, sc.files, sc.pl, r.randrange(1, 4), sc.single)


def e2e(ctx, mode):
    """Checker.results() / the CLI vs the reference verifier on generated trees x metafile kinds x damage sets"""
    ntrees = {"quick": {"C05": 14, "C04": 10, "C16": 10}, "thorough": {"C05": 260, "C04": 160, "C16": 160}}[ctx.tier][mode]
    nsets = {"quick": 3, "thorough": 6}[ctx.tier]
    ncli_sub = {"quick": 3, "thorough": 24}[ctx.tier]
    cli_done = 0
    with core.Scratch("vrce_") as tmp:
        os.environ["HOME"] = tmp
        for i in range(ntrees):
            case_seed = ctx.rng.getrandbits(64)
            rng = random.Random(case_seed)
            kinds = KINDS if ctx.tier == "thorough" else [KINDS[(i * 4 + j) % len(KINDS)] for j in range(4)]
            base = os.path.join(tmp, f"e{i}")
            named_like = mode == "C05" and i % 9 == 4     # D33 on purpose: the parent directory is named like the payload
            if named_like:
                sc = Scenario(os.path.join(base, "payload"), rng, kinds=kinds, name="payload")
            else:
                sc = Scenario(base, rng, kinds=kinds)
            if sc.total() == 0:
                continue
            for k, err in sc.errors.items():
                ctx.fail("create-raised", sc.describe(k, None, {"case_seed": case_seed}), "a metafile", err)
            if mode == "C05":
                sets = [([d for _, d in sc.files], [])]
            else:
                sets = []
                if mode == "C16":
                    sets.append(([d for _, d in sc.files], []))
                for _ in range(nsets):
                    sets.append(gen_damage_set(rng, sc.files, sc.pl, rng.randrange(1, 5), sc.single))
            held = {}
            reuse = {}
            if mode == "C04":
                # the objects see the intact tree first, then every damage set in turn
                for kind, (mf, _) in sc.metas.items():
                    reuse[kind] = Held(mf, sc.root)
                    reuse[kind].ask_all()
            for sn, (state, desc) in enumerate(sets):
                sc.set_state(state)
                for kind, (mf, meta) in sc.metas.items():
                    entries, origs = sc.entries(kind)
                    per_file = view_of(meta) == "v2"
                    ref = reference(meta, sc.root)
                    inp = sc.describe(kind, desc, {"case_seed": case_seed, "tree_index": i, "set_index": sn})
                    guard = True
                    if per_file:
                        g = v2_piece_guard(entries, origs, sc.pl)
                        guard = True if all(g) else g
                    cl = classify(entries, origs, sc.pl, per_file)
                    cl = {("v2: " if per_file else "") + c for c in cl} | {"metafile " + kind} | \
                        {"tree: " + c for c in sc.gen_classes}
                    if mode == "C16":
                        impl = impl_run(mf, sc.root)
                        # the SAME Checker object asked again after the disk changed must report the new state, not a blend
                        if sn == 0:
                            try:
                                held[kind] = trees.quiet(lambda: _recheck_mod().Checker(mf, sc.root))
                                trees.quiet(held[kind].results)
                            except Exception:  # noqa
                                held.pop(kind, None)
                        elif kind in held and "error" not in impl:
                            try:
                                again = trees.quiet(held[kind].results)
                            except Exception as e:  # noqa
                                again = f"{type(e).__name__}: {e}"
                            cl.add("a Checker object reused after the disk changed")
                            if again != impl["result"]:
                                ctx.fail("reused-checker-object-differs", dict(inp, earlier_states=[d for _, d in sets[:sn]]),
                                         f"{impl['result']} (what a fresh Checker reports for this disk state)", again)
                    else:
                        r = impl_result(mf, sc.root)
                        impl = {"error": r} if isinstance(r, str) else {"result": r, "results()": r, "trace": []}
                    judge(ctx, mode, "e2e-" + ("v2" if per_file else "v1"), inp, entries, origs, impl, ref, guard_ok=guard)
                    if mode == "C04" and kind in reuse:
                        cl.add("a Checker object reused after the disk changed (intact -> damaged)")
                        reuse_c04(ctx, reuse[kind], inp, entries, origs, [[]] + [d for _, d in sets[:sn]])
                    if guard is not True:
                        cl.add("v2: a piece excluded by the not-all-zero restriction")
                    # content path = parent directory: same verdict (C05); also used for a part of the C04 cases
                    if mode == "C05" or (mode == "C04" and sn == 0):
                        rp = impl_result(mf, sc.parent)
                        ri = impl.get("result", impl.get("error"))
                        cl.add("content path = parent directory")
                        if named_like:
                            cl.add("parent directory named like the payload (D33)")
                        if rp != ri:
                            ctx.fail("root-vs-parent" + ("-named-like-payload" if named_like else ""),
                                     dict(inp, parent_named_like_payload=named_like), f"same verdict as through the root: {ri}", rp)
                    # the command line
                    if mode in ("C05", "C04") and (sn + i) % 3 == 0 or (mode == "C16" and i % 4 == 0 and sn < 2):
                        sub = cli_done < ncli_sub and kind in ("v1", "hybrid-asm", "ref-v2", "v2-class")
                        cli_done += 1 if sub else 0
                        hs = (case_seed >> 11) % 4294967295 + 1 if sub else 0      # (no draw from rng: replays re-derive the sets from it)
                        rc = cli_result(mf, sc.root, tmp, subprocess_=sub, hashseed=hs)
                        ri = impl.get("result", impl.get("error"))
                        cl.add("through the CLI" + (" (fresh interpreter, str hashes salted)" if sub else " (cli.execute)"))
                        if rc != ri and not (isinstance(ri, str) and isinstance(rc, str)):
                            ctx.fail("cli-vs-library", dict(inp, cli_hashseed=hs) if sub else inp, ri, rc)
                    ctx.case(key=("e2e", mode, i, sn, kind), classes=sorted(cl), nontrivial=True,
                             sample=inp if (i, sn) == (1, 0) and kind == kinds[0] else None)
            if mode == "C05":
                # damaged / missing first, then the intact tree again: the SAME objects must now report exactly 100
                dstate, ddesc = reuse_damage(case_seed, sc)
                sc.set_state(dstate)
                for kind, (mf, _) in sc.metas.items():
                    reuse[kind] = Held(mf, sc.root)
                    reuse[kind].ask_all()
                sc.restore()
                for kind, (mf, meta) in sc.metas.items():
                    inp = sc.describe(kind, [], {"case_seed": case_seed, "tree_index": i, "set_index": 0})
                    reuse_c05(ctx, reuse[kind], inp, [ddesc])
                    ctx.case(key=("e2e-reuse", mode, i, kind), nontrivial=True,
                             classes=["a Checker object reused after the disk changed (damaged -> restored)", "metafile " + kind])
            shutil.rmtree(base, ignore_errors=True)
        if mode in ("C05", "C16"):
            aimed_utf8(ctx, mode, tmp)
        t0 = time.time()
        aimed_utf8_strings(ctx, mode, tmp)
        if os.environ.get("VERIF_TIMING"):
            print(f"[timing] aimed_utf8_strings {time.time() - t0:.1f}s", file=sys.stderr)
        if mode in ("C04", "C16"):
            aimed_zero_tail(ctx, mode, tmp)
        t0 = time.time()
        aimed_layouts(ctx, mode, tmp)
        if os.environ.get("VERIF_TIMING"):
            print(f"[timing] aimed_layouts {time.time() - t0:.1f}s", file=sys.stderr)
        t0 = time.time()
        aimed_paths(ctx, mode, tmp)
        if os.environ.get("VERIF_TIMING"):
            print(f"[timing] aimed_paths {time.time() - t0:.1f}s", file=sys.stderr)
        t0 = time.time()
        e2e_scale(ctx, mode, tmp)
        if os.environ.get("VERIF_TIMING"):
            print(f"[timing] e2e_scale {time.time() - t0:.1f}s", file=sys.stderr)


ATTR_LABEL = "v1 metafile of another encoder: ordinary files carry attr x/h/xh (plain and with pad entries, attr p, between files)"
SAME_NAME_LABEL = "payload directory whose ONLY file is named like it (data/data)"
SAME_NAME_NESTED_LABEL = "payload directory whose only entry is a directory named like it holding one file named like it (data/data/data)"


def _nfd(s):
    return unicodedata.normalize("NFD", s)


# Payloads whose NAMES are text that is not stable under some transformation of text (they are created on disk exactly so, and every
# encoder records the bytes as they are on disk): shape -> (payload name, [components of the files]; () = a single-file payload)
NAME_SHAPES = {
    # decomposed (NFD) file and directory names under an ASCII payload name
    "nfd-file-and-directory": ("p", [(_nfd("caf\u00e9.bin"),), (_nfd("r\u00e9sum\u00e9"), "a.txt"), (_nfd("r\u00e9sum\u00e9"), _nfd("\u00e9")), ("plain.bin",)]),
    # the payload itself has a decomposed name (directory; single file)
    "nfd-payload-directory": (_nfd("r\u00e9sum\u00e9"), [("a.bin",), ("d", "b.bin"), (_nfd("\u00fc"),)]),
    "nfd-single-file": (_nfd("caf\u00e9.bin"), [()]),
    # canonically / compatibility-equivalent names side by side as DIFFERENT files with DIFFERENT content:
    #  0,1: U+00E9 / e+U+0301   2,3,4: U+00C5 / U+212B ANGSTROM SIGN / A+U+030A   5,6: a directory U+00F1 / n+U+0303
    #  7,8: ligature fi + "le.txt" / file.txt   9: circled one   10: full-width "full"   11,12: U+00F6 / o+U+0308
    #  13,14: U+2126 OHM SIGN / U+03A9   15,16: U+00B5 MICRO SIGN / U+03BC
    "equivalent-names-side-by-side": ("p", [("\u00e9",), ("e\u0301",), ("\u00c5",), ("\u212b",), ("A\u030a",), ("\u00f1", "x"),
                                            ("n\u0303", "x"), ("\ufb01le.txt",), ("file.txt",), ("\u2460",),
                                            ("\uff46\uff55\uff4c\uff4c",), ("\u00f6",), ("o\u0308",), ("\u2126",), ("\u03a9",),
                                            ("\u00b5",), ("\u03bc",)]),
    # the same with IDENTICAL content in every group of equivalent names (files of equal size get the same bytes, see layout_scenario):
    # damage in one spelling is hidden from a checker that maps its name to another one
    "equivalent-names-identical-twins": ("p", [("\u00e9",), ("e\u0301",), ("\u00c5",), ("\u212b",), ("A\u030a",), ("\u00f1", "x"),
                                               ("n\u0303", "x"), ("\ufb01le.txt",), ("file.txt",)]),
    # characters that mean something to glob / fnmatch / shells / regular expressions, next to the names they would match (identical
    # content):  0,1: a[1].bin / a1.bin   2,3: st*r.txt / star.txt   4,5: wh?t / what   6,7: d[0-9]/f* / d5/f1
    "glob-metacharacters": ("p", [("a[1].bin",), ("a1.bin",), ("st*r.txt",), ("star.txt",), ("wh?t",), ("what",), ("d[0-9]", "f*"), ("d5", "f1")]),
    # ... in the payload name and without a name they would match
    "glob-payload-name": ("p[1]", [("a[1].bin",), ("d*", "b?.bin"), ("{x,y}",), ("[!a]",), ("(z)+$",), ("plain",)]),
}
EQUIVALENT_SIZES = [B + 1, B + 2, 5, 6, 7, B, 2 * B + 3, 30, 31, 1, 2, 40, 41, 8, 9, 10, 11]
TWIN_SIZES = [B + 1, B + 1, 5, 5, 5, B, B, 30, 30]
GLOB_SIZES = [B + 1, B + 1, 20, 20, 5, 5, B + 9, B + 9]


def name_damage(shape, items):
    """damage on the files of NAME_SHAPES[shape] given by their position in that list -> description for apply_desc (whose indices
       count the files in raw-byte order of the components, the order of Scenario.files)"""
    comps = NAME_SHAPES[shape][1]
    order = sorted(range(len(comps)), key=lambda i: [c.encode("utf-8", "surrogateescape") for c in comps[i]])
    return [(d[0], order.index(d[1])) + tuple(d[2:]) for d in items]


NAME_LABELS = {
    "nfd-file-and-directory": "names: decomposed (NFD) file and directory names on disk",
    "nfd-payload-directory": "names: the payload directory itself has a decomposed (NFD) name",
    "nfd-single-file": "names: single-file payload with a decomposed (NFD) name",
    "equivalent-names-side-by-side": "names: canonically / compatibility-equivalent names (NFC and NFD, U+00C5 / U+212B / A+U+030A, "
                                     "ligature, circled, full-width) as different files side by side",
    "equivalent-names-identical-twins": "names: equivalent names (NFC / NFD / singleton / ligature) side by side with IDENTICAL content, "
                                        "damage in one spelling only",
    "glob-metacharacters": "names: glob metacharacters in file and directory names next to the names they match (identical content), damage "
                           "in the metacharacter names only",
    "glob-payload-name": "names: glob / regular-expression metacharacters in the payload name and in names nothing else matches",
}


def layout_scenario(base, content_seed, pl, sizes, single, kinds, shape=None):
    """a payload of the given sizes (files f00, f01, ...; or one single file; or -- shape -- the directory `data` whose only
       file is data/data resp. data/data/data, or the named files of NAME_SHAPES) whose content is a function of content_seed"""
    rng = random.Random(content_seed)
    if shape in NAME_SHAPES:
        name, comps = NAME_SHAPES[shape]
        content = {}            # files of equal size: independent copies of the same bytes
        for s in sizes:
            if s not in content:
                content[s] = rng.randbytes(s)
        return Scenario(base, rng, pl=pl, name=name, tree={c: bytes(bytearray(content[s])) for c, s in zip(comps, sizes)}, kinds=kinds)
    if shape:
        return Scenario(base, rng, pl=pl, name="data", tree={SAME_NAME_TREES[shape]: rng.randbytes(sizes[0])}, kinds=kinds)
    if single:
        return Scenario(base, rng, pl=pl, tree={(): rng.randbytes(sizes[0])}, kinds=kinds)
    return Scenario(base, rng, pl=pl, sizes=sizes, kinds=kinds, never_single=True)


def aimed_layout_list(mode):
    """(class label, pl, sizes, single, damage, kinds[, shape]) of the aimed end-to-end layouts; a layout with a shape is run
       through the payload root AND through the parent directory"""
    out = []
    # the metafiles of another encoder with BEP 47 attributes on ordinary files (every mode)
    for pl, sizes, desc in ((16384, [16384 + 5, 0, 100, 2 * 16384], [("flip", 2, 50), ("trunc", 3, 16384)]),
                            (32768, [7, 32768, 3], [("rm", 0), ("flip", 1, 32767)]),
                            (16384, [2 * 16384 + 1, 16383], [("trunc", 0, 16384 + 1)])):
        out.append((ATTR_LABEL, pl, sizes, False, desc, ATTR_KINDS + ["v1-align"]))
    # a directory that holds exactly one file named like it: every v2-view kind (and v1), root and parent
    for shape, label in (("only-file-same-name", SAME_NAME_LABEL), ("only-file-same-name-nested", SAME_NAME_NESTED_LABEL)):
        for pl, n in ((16384, 2 * 16384 + 100), (32768, 9)):
            if shape.endswith("nested") and n == 9:
                continue
            out.append((label, pl, [n], False, [("trunc", 0, n - 5)] if n > 9 else [("flip", 0, 4)], V2_KINDS + ["v1", "ref-v1"], shape))
    # names that are not stable under a transformation of TEXT (Unicode normalisation in any form, glob expansion): the files exist
    # on disk exactly so; every kind of both views, root and parent (damage indices: files in raw-byte order of the components)
    named = V2_KINDS + ["v1", "ref-v1", "ref-v1-attr"]
    out.append((NAME_LABELS["nfd-file-and-directory"], 16384, [16384 + 5, 100, 2 * 16384, 7], False,
                [("flip", 0, 3), ("trunc", 3, 16384)], named, "nfd-file-and-directory"))
    out.append((NAME_LABELS["nfd-payload-directory"], 32768, [32768 + 1, 9, 32768], False, [("flip", 2, 32767)], named, "nfd-payload-directory"))
    out.append((NAME_LABELS["nfd-single-file"], 16384, [2 * 16384 + 9], False, [("flip", 0, 2 * 16384 + 8)], V2_KINDS + ["v1", "ref-v1"],
                "nfd-single-file"))
    eq = "equivalent-names-side-by-side"
    out.append((NAME_LABELS[eq], 16384, EQUIVALENT_SIZES, False, name_damage(eq, [("flip", 1, B), ("rm", 5), ("flip", 13, 0)]), named, eq))
    # identical twins: three damage sets, each confined to spellings that have an intact twin -- hidden from a checker that composes
    # (NFC) / decomposes (NFD) / applies a compatibility form (NFKC, NFKD) to the recorded names
    tw = "equivalent-names-identical-twins"
    for dmg in ([("flip", 1, B), ("trunc", 6, 5), ("flip", 4, 1), ("flip", 3, 0)],        # the decomposed / singleton spellings damaged
                [("flip", 0, 0), ("rm", 5), ("flip", 2, 4), ("flip", 3, 0)],              # the composed / singleton spellings damaged
                [("flip", 7, 3)]):                                                         # the ligature spelling damaged
        out.append((NAME_LABELS[tw], 16384, TWIN_SIZES, False, name_damage(tw, dmg), named, tw))
    # a[1].bin flipped (a1.bin intact), st*r.txt short (star.txt intact), wh?t removed (what there), d[0-9]/f* flipped (d5/f1 intact)
    gl = "glob-metacharacters"
    for dmg in ([("flip", 0, 0)], [("trunc", 2, 3)], [("rm", 4)], [("flip", 6, B + 8)]):     # one pair at a time: each alone is hidden
        out.append((NAME_LABELS[gl], 16384, GLOB_SIZES, False, name_damage(gl, dmg), named, gl))
    out.append((NAME_LABELS["glob-payload-name"], 32768, [2 * B + 1, 9, 5, 6, 7, 2 * B], False,
                name_damage("glob-payload-name", [("flip", 0, 2 * B), ("trunc", 5, B)]), named, "glob-payload-name"))
    if mode != "C05":
        for pl in (32768, 16384):
            for sizes, desc in absent_empty_cases(pl):
                out.append(("absent empty file (not the first) before the damage", pl, sizes, False, desc, V2_KINDS + ["v1", "ref-v1"]))
        for pl, n in ((32768, 3 * 32768 + 5), (16384, 4 * 16384)):
            out.append(("single file truncated on a piece boundary, whole pieces left", pl, [n], True, [("trunc", 0, 2 * pl)],
                        V2_KINDS + ["v1", "ref-v1"]))
    bc = "3/5/6/7 blocks below one piece or in the last piece (pl 64/128 KiB)"
    for pl, sizes in ((P128, [2 * B + 1, 3 * B - 1, 3 * B, 4 * B + 1, 5 * B - 1, 5 * B]),
                      (P128, [5 * B + 1, 6 * B - 1, 6 * B, 6 * B + 1, 7 * B - 1, 7 * B]),
                      (P64, [2 * B + 1, 3 * B - 1, 3 * B, P64 + 3 * B, 2 * P64 + 2 * B + 1]),
                      (P128, [P128 + 3 * B - 1, P128 + 5 * B, P128 + 6 * B + 1, P128 + 6 * B])):
        last = len(sizes) - 1
        out.append((bc, pl, sizes, False, [("flip", 1, sizes[1] - 1), ("trunc", last, sizes[last] - B - 1)], V2_KINDS))
    out.append((bc, P128, [5 * B - 1], True, [("flip", 0, 5 * B - 2)], V2_KINDS))
    out.append((bc, P64, [P64 + 3 * B], True, [("trunc", 0, P64 + B + 1)], V2_KINDS))
    return out


def aimed_layouts(ctx, mode, tmp):
    """
    aimed end-to-end layouts, every metafile kind of the v2 view (and v1 where it applies), judged by the property of the mode:
    C05 the intact tree (and: objects that saw the damage, asked again once it is intact); C04 the damaged tree (and: objects
    that saw it intact, asked again after the damage); C16 both states
    """
    for n, (label, pl, sizes, single, desc, kinds, *shape) in enumerate(aimed_layout_list(mode)):
        shape = shape[0] if shape else None
        content_seed = ctx.rng.getrandbits(64)
        sc = layout_scenario(os.path.join(tmp, f"al{n}"), content_seed, pl, sizes, single, kinds, shape)
        recipe = {"scope": "aimed-layout", "content_seed": content_seed, "sizes": list(sizes)}
        if shape:
            recipe["shape"] = shape
        for k, err in sc.errors.items():
            ctx.fail("create-raised", sc.describe(k, None, recipe), "a metafile", err)
        intact = [d for _, d in sc.files]
        damaged = apply_desc(sc.files, desc)
        desc = [list(d) for d in desc]
        reuse = {}
        if mode == "C04":
            order = [(damaged, desc)]
            for kind, (mf, _) in sc.metas.items():
                reuse[kind] = Held(mf, sc.root)
                reuse[kind].ask_all()
        elif mode == "C05":
            order = [(intact, [])]
            sc.set_state(damaged)
            for kind, (mf, _) in sc.metas.items():
                reuse[kind] = Held(mf, sc.root)
                reuse[kind].ask_all()
        else:
            order = [(intact, []), (damaged, desc)]
        for state, d in order:
            sc.set_state(state)
            for kind, (mf, meta) in sc.metas.items():
                entries, origs = sc.entries(kind)
                per_file = view_of(meta) == "v2"
                guard = True
                if per_file:
                    g = v2_piece_guard(entries, origs, pl)
                    guard = True if all(g) else g
                inp = sc.describe(kind, d, recipe)
                judge(ctx, mode, "aimed-" + ("v2" if per_file else "v1"), inp, entries, origs, impl_run(mf, sc.root),
                      reference(meta, sc.root), guard_ok=guard)
                cl = {("v2: " if per_file else "") + c for c in classify(entries, origs, pl, per_file)} | {label, "metafile " + kind}
                if mode == "C04" and kind in reuse:
                    cl.add("a Checker object reused after the disk changed (intact -> damaged)")
                    reuse_c04(ctx, reuse[kind], inp, entries, origs, [[]])
                if mode == "C05" and kind in reuse:
                    cl.add("a Checker object reused after the disk changed (damaged -> restored)")
                    reuse_c05(ctx, reuse[kind], inp, [desc])
                ctx.case(key=("aimed-layout", n, kind, str(d)), classes=sorted(cl), nontrivial=True)
                if shape:
                    # the same state through the PARENT directory as the content path
                    inp_p = dict(inp, content_path="parent")
                    judge(ctx, mode, "aimed-" + ("v2" if per_file else "v1") + "-via-parent", inp_p, entries, origs,
                          impl_run(mf, sc.parent), reference(meta, sc.root), guard_ok=guard)
                    ctx.case(key=("aimed-layout", n, kind, str(d), "parent"), nontrivial=True,
                             classes=sorted(cl | {"content path = parent directory"}))
        shutil.rmtree(sc.base, ignore_errors=True)


def aimed_zero_tail(ctx, mode, tmp):
    """aimed class: one block per piece (pl = 16 KiB) and a file whose final partial piece is all zeros (sparse / preallocated
       tail), removed or truncated on a piece boundary: the zero-fill verdict for that last piece is `verifies`"""
    rng = random.Random(ctx.rng.getrandbits(64))
    pl = B
    for n, tail in enumerate((300, 1, B - 1)):
        tree = {("y",): rng.randbytes(10), ("z.bin",): rng.randbytes(2 * pl) + bytes(tail), ("zz",): rng.randbytes(pl + 3)}
        sc = Scenario(os.path.join(tmp, f"zt{n}"), rng, pl=pl, tree=tree, kinds=V2_KINDS + ["v1"])
        zi = [i for i, (c, _) in enumerate(sc.files) if c[-1] == "z.bin"][0]
        for label, cut in (("removed", None), ("truncated on the first piece boundary", pl), ("truncated on the last piece boundary", 2 * pl)):
            state = [d for _, d in sc.files]
            state[zi] = None if cut is None else sc.files[zi][1][:cut]
            sc.set_state(state)
            for kind, (mf, meta) in sc.metas.items():
                entries, origs = sc.entries(kind)
                per_file = view_of(meta) == "v2"
                guard = True
                if per_file:
                    g = v2_piece_guard(entries, origs, pl)
                    guard = True if all(g) else g
                inp = sc.describe(kind, [["zero-tail", label, tail]], {"scope": "aimed-zero-tail"})
                judge(ctx, mode, "zero-tail-" + ("v2" if per_file else "v1"), inp, entries, origs, impl_run(mf, sc.root),
                      reference(meta, sc.root), guard_ok=guard)
                ctx.case(key=("zero-tail", n, label, kind), nontrivial=True,
                         classes=["all-zero final partial piece absent (one block per piece)", "metafile " + kind])
        shutil.rmtree(sc.base, ignore_errors=True)


def aimed_utf8(ctx, mode, tmp):
    """aimed class: the recorded SHA-1 digest happens to be valid UTF-8"""
    rng = random.Random(ctx.rng.getrandbits(64))
    data = utf8_digest_payload(rng)
    if data is None:
        ctx.notes.append("aimed class utf8-digest: no payload found")
        return
    # two pieces: a full first piece whose digest is valid UTF-8 with a multi-byte character, then the short payload above
    first = utf8_digest_block(rng, 16384)
    variants = [(data, "recorded digest is valid UTF-8")]
    if first is not None:
        variants.append((first + data, "recorded two-piece `pieces` string is valid UTF-8 with a multi-byte character"))
    else:
        ctx.notes.append("aimed class utf8-digest (two pieces): no block found")
    for data, klass in variants:
        _aimed_utf8_one(ctx, mode, tmp, data, klass)


def _aimed_utf8_one(ctx, mode, tmp, data, klass):
    for single in (False, True):
        base = os.path.join(tmp, f"u{int(single)}-{len(data)}")
        root = os.path.join(base, "p.bin" if single else "p")
        tree = {(): data} if single else {("a",): data}
        trees.write_tree(root, tree)
        name = os.path.basename(root)
        files = [((name,), data)] if single else [(("a",), data)]
        for kind in ("v1", "ref-v1"):
            out = os.path.join(base, f"m-{kind}.torrent")
            raw = make_metafile(kind, root, name, files, 16384, single, out)
            meta = decode_meta(raw)
            r = impl_result(out, root)
            inp = {"scope": "aimed", "aimed": "utf8-digest", "payload": data.decode(), "single": single, "metafile": kind,
                   "piece_length": 16384, "pieces": meta[b"info"][b"pieces"].hex()}
            ctx.case(key=("utf8", single, kind, len(data)), classes=[klass], nontrivial=True)
            if not (isinstance(r, float) and r == 100):
                ctx.fail("utf8-digest", inp, 100.0, r, detail="pyben returns a valid-UTF-8 `pieces` string as str (D37)")


# ---- payloads described by PARTS (a failing input carries its own content): a recipe [size, filler, tail], ["rand", seed, size],
# ["cut", part, from, to]
def part_bytes(p):
    if p[0] == "rand":
        return random.Random(p[1]).randbytes(p[2])
    if p[0] == "cut":
        return part_bytes(p[1])[p[2]:p[3]]
    return recipe_bytes(p)


def spec_tree(spec):
    """[[path ("" = the single file), [part, ...]], ...] -> content tree"""
    return {tuple(path.split("/")) if path else (): b"".join(part_bytes(p) for p in parts) for path, parts in spec}


def split_spec(parts, cuts, names):
    """the stream of `parts` cut at the absolute offsets `cuts` into len(cuts) + 1 files (names ascending in raw-byte order, so that
       the v1 stream of the directory is the stream of the parts)"""
    sizes = [len(part_bytes(p)) for p in parts]
    bounds = [0] + list(cuts) + [sum(sizes)]
    spec = []
    for name, lo, hi in zip(names, bounds, bounds[1:]):
        fparts, off = [], 0
        for p, sz in zip(parts, sizes):
            a, b = max(lo, off), min(hi, off + sz)
            if a < b:
                fparts.append(p if (a, b) == (off, off + sz) else ["cut", p, a - off, b - off])
            off += sz
        spec.append([name, fparts])
    return spec


def locate(files, off):
    """(file index, offset in it) of stream offset `off`"""
    for i, (_, d) in enumerate(files):
        if off < len(d):
            return i, off
        off -= len(d)
    raise ValueError(off)


UTF8_SPLIT_NAMES = ["a", "b", "c/d", "e", "f"]


def utf8_v1_plans(rec, tier):
    """(piece length, parts of the stream = the pieces, layout: "single" | "dir-one" | list of cut offsets) of the v1 payloads whose
       WHOLE `pieces` string is valid UTF-8 with at least one multi-byte character"""
    b, b32, s = rec["sha1-block"], rec["sha1-block32"], rec["sha1-short"]
    if not b or not s:
        return []

    def pick(lst, i):
        return lst[i % len(lst)]
    out = [
        (B, [pick(b, 0), pick(s, 0)], "single"),                                          # two pieces, the last one short
        (B, [pick(b, 1), pick(b, 2), pick(s, 1)], [10000, 10000, B + 7]),                 # three pieces over four files (one empty)
        (B, [pick(b, 3), pick(b, 4), pick(b, 5)], "dir-one"),                             # three whole pieces, ends on the boundary
        (B, [pick(b, 6), pick(b, 7)], "single"),                                          # two whole pieces
    ]
    if b32:
        out.append((2 * B, [pick(b32, 0), pick(s, 2)], [5, 2 * B]))                       # 32 KiB pieces; the last piece is a file

    def narrowest(klass, lst):            # the recipe whose text is shorter than its bytes by the least (1 when there is one)
        return min(lst, key=lambda r: len(recipe_digest(klass, r)) - len(utf8_text(recipe_digest(klass, r))))
    out.append((B, [narrowest("sha1-short", s)], "dir-one"))                              # ONE short piece, 19 characters of text
    if tier == "thorough":
        for i in range(len(b)):
            out.append((B, [b[i], pick(s, i + 3)], ["single", "dir-one", [B - 1], [1, B + 1]][i % 4]))
        out.append((B, [pick(b, i) for i in (7, 5, 3, 1, 0)], [B, 3 * B + 1]))            # five whole pieces
        out.append((B, [pick(b, i) for i in (2, 4, 6, 0)] + [pick(s, 4)], "single"))
        out.append((B, [pick(s, 5)], "dir-one"))                                          # one short piece
        out.append((4 * B, [pick(s, 6)], "single"))
        for i in range(len(b32)):
            out.append((2 * B, [b32[i], pick(b32, i + 1), pick(s, i)], ["single", [2 * B], [7, 2 * B + 9, 2 * B + 9]][i % 3]))
    return out


def utf8_v1_states(files, pl, single, thorough):
    """(label, damage description) of the damaged states of a v1 payload: a flip in the last / first / a middle piece, the last byte
       cut off, the whole last piece missing (truncated on the last piece boundary, later files removed)"""
    total = sum(len(d) for _, d in files)
    n = -(-total // pl)
    out = [("flip in the last piece", [["flip", *locate(files, total - 1)]]),
           ("flip in the first piece", [["flip", *locate(files, 0)]])]
    if n >= 3:
        out.append(("flip in a middle piece", [["flip", *locate(files, pl + 1)]]))
    i, o = locate(files, total - 1)
    out.append(("the last byte cut off", [["trunc", i, o]]))
    if n >= 2:
        boundary, desc, start = (n - 1) * pl, [], 0
        for j, (_, d) in enumerate(files):
            if d and start >= boundary and not single:
                desc.append(["rm", j])
            elif start < boundary < start + len(d):
                desc.append(["trunc", j, boundary - start])
            start += len(d)
        out.append(("the whole last piece missing", desc))
    if thorough and n >= 2:
        out.append(("flips in the first and in the last piece", [["flip", *locate(files, 1)], ["flip", *locate(files, total - 2)]]
                    if locate(files, 1)[0] != locate(files, total - 2)[0] else [["flip", *locate(files, (n - 1) * pl)]]))
    return out


def utf8_v2_plans(rec, tier):
    """(class label, piece length, tree spec, path of the aimed file) of the v2 / hybrid payloads in which a RECORDED HASH is valid
       UTF-8 with a multi-byte character: the pieces root of a file not longer than a piece (alone, single file, next to other files,
       exactly one piece long, two blocks under one piece), the piece layers VALUE of a multi-piece file, the pieces root of a
       multi-piece file (a piece layers KEY)"""
    s, x, p = rec["sha256-short"], rec["sha256-block"], rec["sha256-pair"]
    out = []
    small = "recorded pieces root of a file not longer than a piece is valid UTF-8 with a multi-byte character"

    def pick(lst, i):
        return lst[i % len(lst)]
    if s:
        out += [(small + " (single-file payload)", B, [["", [pick(s, 0)]]], ""),
                (small + " (the only file of a directory)", 2 * B, [["m.bin", [pick(s, 1)]]], "m.bin"),
                (small + " (next to other files)", B, [["a", [["rand", 11, B + 9]]], ["m.bin", [pick(s, 2)]], ["z", [["rand", 12, 100]]]], "m.bin")]
    if x:
        out.append((small + " (file exactly one piece long)", B, [["k", [pick(x, 0)]], ["z", [["rand", 13, 5]]]], "k"))
    if len(x) >= 2 and s:
        out.append(("recorded piece layers VALUE of a multi-piece file is valid UTF-8 with a multi-byte character", B,
                    [["big", [pick(x, 0), pick(x, 1), pick(s, 0)]], ["z", [["rand", 14, 100]]]], "big"))
    if p:
        out.append((small + " (two blocks under one piece of 32 KiB)", 2 * B, [["a", [["rand", 15, 7]]], ["two", list(pick(p, 0))]], "two"))
        out.append(("recorded pieces root of a multi-piece file (a piece layers KEY) is valid UTF-8 with a multi-byte character", B,
                     [["two", list(pick(p, 1))], ["zz", [["rand", 16, B + 1]]]], "two"))
    if s and x and p:
        out.append((small + " (three such files together, 64 KiB pieces)", 4 * B,
                    [["m", [pick(s, 0)]], ["n", [pick(x, 1)]], ["o", list(pick(p, 0))], ["q", [["rand", 17, 4 * B + 3]]]], "n"))
    if tier == "thorough":
        for i, r in enumerate(s):
            for pl in (B, 2 * B, 4 * B, 8 * B):
                out.append((small + " (single-file payload)", pl, [["", [r]]], ""))
                out.append((small + " (next to other files)", pl, [["0", [["rand", 20 + i, pl]]], ["sub/m", [r]], ["z", []]], "sub/m"))
        for i, r in enumerate(x):
            out.append((small + " (file exactly one piece long)", B, [["", [r]]], ""))
            out.append((small + " (next to other files)", 2 * B, [["j", [["rand", 30 + i, 2 * B + 1]]], ["k", [r]]], "k"))
        for i, r in enumerate(p):
            out.append((small + " (two blocks under one piece of 32 KiB)", 2 * B, [["", list(r)]], ""))
            out.append((small + " (two blocks under one piece of 64 KiB)", 4 * B, [["t/two", list(r)], ["u", [["rand", 40 + i, 9]]]], "t/two"))
            out.append(("recorded pieces root of a multi-piece file (a piece layers KEY) is valid UTF-8 with a multi-byte character", B,
                        [["", list(r)]], ""))
        if len(x) >= 3:
            out.append(("recorded piece layers VALUE of a multi-piece file is valid UTF-8 with a multi-byte character", B,
                        [["", [x[2], x[0], x[1], x[2]]]], ""))
    return out


def utf8_v2_states(files, t, single, thorough):
    """(label, damage description) around the aimed file (index t): flipped (last byte; first byte), one byte short, removed, and --
       damage confined to ANOTHER file -- untouched while a neighbour is flipped"""
    L = len(files[t][1])
    out = [("the aimed file flipped in its last byte", [["flip", t, L - 1]]), ("the aimed file one byte short", [["trunc", t, L - 1]])]
    if not single:
        out.append(("the aimed file removed", [["rm", t]]))
    others = [i for i, (_, d) in enumerate(files) if d and i != t]
    if others:
        out.append(("only a neighbour of the aimed file flipped", [["flip", others[-1], 0]]))
    if thorough:
        out.append(("the aimed file flipped in its first byte", [["flip", t, 0]]))
        out.append(("the aimed file truncated to nothing", [["trunc", t, 0]]))
        if L > B:
            out.append(("the aimed file truncated on a block boundary", [["trunc", t, B]]))
    return out


def utf8_scenario(base, pl, spec, name, kinds):
    return Scenario(base, random.Random(0), pl=pl, tree=spec_tree(spec), name=name, kinds=kinds)


def aimed_utf8_strings(ctx, mode, tmp):
    """
    aimed class, every mode: RECORDED HASH STRINGS THAT ARE VALID UTF-8 WITH A MULTI-BYTE CHARACTER (pyben hands them over as str, whose
    length and offsets are those of the text, not of the bytes).  v1: the whole `pieces` string of 1 .. 5 pieces (16 / 32 KiB pieces;
    single file, one file in a directory, the stream cut into several files incl. an empty one); v2 / hybrid (every kind of the v2
    view): the pieces root of a file not longer than a piece, a piece layers value, a piece layers key.  Intact (C05, C16; C05 also
    through the parent directory) and damaged (C04, C16): v1 -- a flip in the last / first / a middle piece, the last byte cut off,
    the whole last piece missing; v2 -- the aimed file flipped / short / removed, and only a neighbour flipped.  Contents from the
    recipes of harness/data/utf8_digests.json (re-checked on every run); the judge is the reference verifier.
    """
    rec = load_utf8_recipes(ctx)
    thorough = ctx.tier == "thorough"
    plans = [("v1", None, pl, parts, layout) for pl, parts, layout in utf8_v1_plans(rec, ctx.tier)] + \
            [("v2", label, pl, spec, target) for label, pl, spec, target in utf8_v2_plans(rec, ctx.tier)]
    if not any(v == "v1" for v, *_ in plans) or not any(v == "v2" for v, *_ in plans):
        ctx.notes.append("aimed utf8 classes: recipes missing for " + ", ".join(k for k in UTF8_CLASSES if not rec[k]))
    for n, (view, label, pl, a, b) in enumerate(plans):
        if view == "v1":
            if a and b == "single":
                spec, name = [["", a]], "p.bin"
            elif b == "dir-one":
                spec, name = [["a", a]], "p"
            else:
                spec, name = split_spec(a, b, UTF8_SPLIT_NAMES), "p"
            kinds = ["v1", "ref-v1"] + (["ref-v1-attr"] if isinstance(b, list) else [])
        else:
            spec, name = a, ("p.bin" if b == "" else "p")
            kinds = V2_KINDS
        sc = utf8_scenario(os.path.join(tmp, f"us{n}"), pl, spec, name, kinds)
        recipe = {"scope": "aimed-utf8", "tree_spec": spec}
        for k, err in sc.errors.items():
            ctx.fail("create-raised", sc.describe(k, None, recipe), "a metafile", err)
        base_cl = set()
        if view == "v1":
            raw_pieces = b"".join(oracle.v1_pieces(b"".join(d for _, d in sc.files), pl))
            text = utf8_text(raw_pieces)
            if text is None or text.isascii():
                ctx.broken.append(f"harness: aimed utf8 v1 plan {n}: the pieces string is not valid non-ASCII UTF-8")
                continue
            npieces = len(raw_pieces) // 20
            base_cl = {"recorded v1 `pieces` string valid UTF-8 with a multi-byte character: %s" %
                       ("1 piece" if npieces == 1 else "2 pieces" if npieces == 2 else "3 pieces" if npieces == 3 else ">= 4 pieces"),
                       "recorded v1 `pieces` string valid UTF-8: %d KiB pieces" % (pl // 1024),
                       "recorded v1 `pieces` string valid UTF-8: text shorter than the bytes by %s" %
                       ("1" if len(raw_pieces) - len(text) == 1 else "2 or more"),
                       "recorded v1 `pieces` string valid UTF-8: " + ("single file" if sc.single else "one file in a directory" if len(sc.files) == 1
                                                                       else "stream cut into several files")} | \
                {"recorded hash valid UTF-8: a character of %d bytes" % w for w in char_widths(raw_pieces) if w > 1}
            states = utf8_v1_states(sc.files, pl, sc.single, thorough)
            t = None
        else:
            t = [i for i, (c, _) in enumerate(sc.files) if "/".join(c) == (b or name)][0]
            data = sc.files[t][1]
            proot = oracle.pieces_root(data)
            rec_hash = b"".join(oracle.piece_layer(data, pl)) if (len(data) > pl and "VALUE" in label) else proot
            if (utf8_text(rec_hash) or "").isascii() is not False:
                ctx.broken.append(f"harness: aimed utf8 v2 plan {n}: the aimed recorded hash is not valid non-ASCII UTF-8")
                continue
            base_cl = {"v2: " + label} | {"recorded hash valid UTF-8: a character of %d bytes" % w for w in char_widths(rec_hash) if w > 1}
            states = utf8_v2_states(sc.files, t, sc.single, thorough)
        order = ([("intact", [])] if mode != "C04" else []) + (states if mode != "C05" else [])
        for sn, (slabel, desc) in enumerate(order):
            sc.set_state(apply_desc(sc.files, desc))
            for kind, (mf, meta) in sc.metas.items():
                entries, origs = sc.entries(kind)
                per_file = view_of(meta) == "v2"
                guard = True
                if per_file:
                    g = v2_piece_guard(entries, origs, pl)
                    guard = True if all(g) else g
                inp = sc.describe(kind, [list(d) for d in desc], dict(recipe, state=slabel))
                ref = reference(meta, sc.root)
                judge(ctx, mode, "utf8-" + ("v2" if per_file else "v1"), inp, entries, origs, impl_run(mf, sc.root), ref, guard_ok=guard)
                cl = {("v2: " if per_file else "") + c for c in classify(entries, origs, pl, per_file)} | base_cl | {"metafile " + kind}
                if desc:
                    cl.add("recorded hash valid UTF-8: " + slabel)
                ctx.case(key=("aimed-utf8", n, kind, slabel), classes=sorted(cl), nontrivial=True,
                         sample=inp if (n, sn) in ((1, 0), (6, 0)) and kind == kinds[1] else None)
                if not desc and (mode == "C05" or thorough):
                    inp_p = dict(inp, content_path="parent")
                    judge(ctx, mode, "utf8-" + ("v2" if per_file else "v1") + "-via-parent", inp_p, entries, origs,
                          impl_run(mf, sc.parent), ref, guard_ok=guard)
                    ctx.case(key=("aimed-utf8", n, kind, slabel, "parent"), nontrivial=True,
                             classes=sorted(cl | {"content path = parent directory"}))
        shutil.rmtree(sc.base, ignore_errors=True)


# ------------------------------------------------- end to end: PATH ARGUMENTS and their spellings
PATHS_RULE = (
    "  PATH ARGUMENTS AND THEIR SPELLINGS (aimed_paths; end to end, every mode, judged by the reference verifier on the payload the "
    "metafile describes AT THE LOCATION THE PROPERTY'S READING GIVES: the given path if its last component is the torrent name, else "
    "<given>/<name>): (1) LOOK-UP LAYOUTS -- the PARENT directory given as content has a name that ENDS WITH / BEGINS WITH / CONTAINS the "
    "torrent name (old-album, album-old, my-album-2 holding album; box holding x) but is not equal to it; the payload ROOT given as "
    "content itself CONTAINS an entry named like the torrent (album/album/ holding a copy of the payload: intact while the outer payload "
    "is damaged for C04 / C16, damaged while the outer one is intact for C05 / C16; also a plain FILE album/album); both at once; SIBLING "
    "directories whose names extend the torrent name (album2, old-album next to album) holding such a copy; v1, v2 and hybrid metafiles of "
    "creators and of the reference encoder, multi-file and single-file payloads; root AND parent, each spelled absolute, absolute with a "
    "trailing separator, relative to the working directory (the directory holding the given path, or one level higher), relative with a "
    "trailing separator, './x', 'x/.', 'd/../d/x' (a single file only in the spellings that name a file); through the library (Checker(...) constructed and run under that working directory), "
    "cli.execute and a fresh interpreter started in that working directory.  (2) WORKING DIRECTORY VERSUS THE METAFILE'S FOLDER -- the "
    "metafile lies in another folder that holds ANOTHER copy of the payload next to it (pristine when the judged copy is damaged, damaged "
    "when the judged copy is intact), the content argument is RELATIVE ('album', './album', 'album/', '.', '../work/album', '../work') and "
    "the run starts in the working directory that holds the judged copy; the metafile argument absolute and relative; fresh interpreter "
    "with cwd set, cli.execute and the library under os.chdir.  (3, C05) METAFILES CREATED THROUGH PATH SPELLINGS -- `cd payload; create .`, "
    "`cd payload/sub; create ..`, `cd payload/sub/deep; create ../..`, payload/sub/.., /abs/payload/sub/deep/../.., payload/., ./payload/, "
    "../payload from inside, plain relative and absolute, a single file as ./p.bin and d/../p.bin, the output file absolute and relative "
    "(../p.torrent), by all six creator classes and by the command line (`create`, meta versions 1 2 3): the created metafile is rechecked "
    "against the intact payload through the root AND the parent and must give exactly 100.0 (an exception is a failure).  Replays rebuild "
    "the layout from the recorded recipe (scope aimed-paths).")

PATH_SPELLINGS = ["absolute", "absolute/", "relative", "relative/", "./relative", "relative/.", "relative through ../"]
NOT_FOR_A_FILE = ("absolute/", "relative/", "relative/.", "name/")     # spellings that do not name a regular file
PARENT_SHAPES = {           # how the name of the parent directory relates to the torrent name (never equal: that is finding D33)
    "ends-with": lambda n: "old-" + n,
    "ends-with-glued": lambda n: "bo" + n,
    "begins-with": lambda n: n + "-old",
    "contains": lambda n: "my-" + n + "-2",
    "unrelated": lambda n: "store",
}
PATH_KINDS = ["ref-v1", "v2-class", "hybrid-asm", "v1", "ref-v2", "ref-hybrid", "hybrid-class", "v2-asm", "v1-align"]


class chdir:
    def __init__(self, d):
        self.d = d

    def __enter__(self):
        self.old = os.getcwd()
        os.chdir(self.d)

    def __exit__(self, *a):
        os.chdir(self.old)


def spell_path(path, spelling, cwd):
    """the text of a path argument for the absolute `path` as typed by a user whose working directory is `cwd`"""
    rel = os.path.relpath(path, cwd)
    if spelling == "absolute":
        return path
    if spelling == "absolute/":
        return path + os.sep
    if spelling == "relative":
        return rel
    if spelling == "relative/":
        return rel + os.sep
    if spelling == "./relative":
        return os.curdir + os.sep + rel
    if spelling == "relative/.":
        return rel + os.sep + os.curdir
    if spelling == "relative through ../":        # <dir>/../<dir>/<x> with <dir> the directory holding the path
        d = os.path.dirname(path)
        return os.path.join(os.path.relpath(d, cwd), os.pardir, os.path.basename(d), os.path.basename(path))
    raise ValueError(spelling)


def run_recheck(route, mf, content, cwd, home, hashseed=0):
    """recheck with the arguments exactly as given, started in the working directory `cwd` -> impl dict as impl_run's"""
    if route == "library":
        with chdir(cwd):
            return impl_run(mf, content)
    if route == "cli.execute":
        with chdir(cwd):
            r = cli_result(mf, content, home)
    else:
        p = subprocess.run([core.PY, "-m", "torrentfile", "recheck", mf, content], cwd=cwd, capture_output=True, text=True, timeout=300,
                           env=core.impl_env({"HOME": home, "PYTHONHASHSEED": str(hashseed)}))
        m = re.findall(r"<- ([0-9.eE+-]+)% ->", p.stdout)
        r = float(m[-1]) if p.returncode == 0 and m else f"exit {p.returncode}: {p.stderr.strip()[-200:]}"
    return {"error": r} if isinstance(r, str) else {"result": r, "results()": r, "trace": []}


def paths_payload(base, rec):
    """the judged payload of a recipe: Scenario in <base>/<parent_name>/ (files f00.. or a single file; content a function of content_seed)"""
    rng = random.Random(rec["content_seed"])
    pdir = os.path.join(base, rec["parent_name"])
    if rec["single"]:
        return Scenario(pdir, rng, pl=rec["piece_length"], name=rec["name"], tree={(): rng.randbytes(rec["sizes"][0])}, kinds=[rec["metafile"]])
    if rec.get("deep"):
        comps = [("a.bin",), ("sub", "b.bin"), ("sub", "deep", "c.bin"), ("sub", "deep", "d.bin")]
        tree = {c: rng.randbytes(s) for c, s in zip(comps, rec["sizes"])}
        return Scenario(pdir, rng, pl=rec["piece_length"], name=rec["name"], tree=tree, kinds=[rec["metafile"]])
    return Scenario(pdir, rng, pl=rec["piece_length"], name=rec["name"], sizes=rec["sizes"], kinds=[rec["metafile"]], never_single=True)


def write_copy(sc, root, state):
    """another copy of sc's payload (files in the given state) at `root`"""
    for (comps, _), d in zip(sc.files, state):
        if d is not None:
            write_file(path_of(root, comps, sc.single), d)


def paths_build(base, rec):
    """
    lay out the disk of a recipe; returns (sc, metafile path, given content path (absolute), working directory).
    rec["damage"] is applied to the JUDGED payload, rec["decoy_damage"] (None = no decoy) to the other copies.
    """
    sc = paths_payload(base, rec)
    kind = rec["metafile"]
    if kind not in sc.metas:
        return sc, None, None, None
    mf = sc.metas[kind][0]
    sc.set_state(apply_desc(sc.files, rec["damage"]))
    decoy = None if rec.get("decoy_damage") is None else apply_desc(sc.files, rec["decoy_damage"])
    fam = rec["family"]
    if fam == "look-up":
        if decoy is not None:
            for where in rec["decoys"]:
                if where == "inside-root":
                    write_copy(sc, os.path.join(sc.root, sc.name), decoy)
                elif where == "file-inside-root":
                    write_file(os.path.join(sc.root, sc.name), sc.files[0][1])
                else:       # siblings whose names extend the torrent name
                    write_copy(sc, os.path.join(sc.parent, where.replace("NAME", sc.name)), decoy)
        given = sc.root if rec["via"] == "root" else sc.parent
        cwd = os.path.dirname(given) if rec["cwd"] == "holding" else os.path.dirname(os.path.dirname(given))
    else:       # the metafile's folder (with the other copy) is not the working directory (with the judged copy)
        store = os.path.join(base, "kept")
        os.makedirs(store, exist_ok=True)
        mf2 = os.path.join(store, "m.torrent")
        shutil.copyfile(mf, mf2)
        os.remove(mf)
        mf = mf2
        if decoy is not None:
            write_copy(sc, os.path.join(store, sc.name), decoy)
        given = sc.root if rec["via"] == "root" else sc.parent
        cwd = sc.parent
    return sc, mf, given, cwd


def paths_args(rec, mf, given, cwd):
    if rec["family"] == "look-up":
        return mf, spell_path(given, rec["spelling"], cwd)
    content = {"name": os.path.basename(given), "./name": os.curdir + os.sep + os.path.basename(given), "name/": os.path.basename(given) + os.sep,
               ".": os.curdir, "../work/name": os.path.join(os.pardir, os.path.basename(cwd), os.path.basename(given)),
               "../work": os.path.join(os.pardir, os.path.basename(cwd))}[rec["spelling"]]
    return (mf if rec["metafile_arg"] == "absolute" else os.path.relpath(mf, cwd)), content


def paths_eval(base, rec, home):
    """-> (sc, entries, origs, impl, ref, guard) of one recipe (None when the metafile could not be made)"""
    sc, mf, given, cwd = paths_build(base, rec)
    if mf is None:
        return sc, None, None, None, None, None
    kind = rec["metafile"]
    meta = sc.metas[kind][1]
    a_mf, a_content = paths_args(rec, mf, given, cwd)
    impl = run_recheck(rec["route"], a_mf, a_content, cwd, home, rec.get("cli_hashseed", 0))
    entries, origs = sc.entries(kind)
    guard = True
    if view_of(meta) == "v2":
        g = v2_piece_guard(entries, origs, sc.pl)
        guard = True if all(g) else g
    return sc, entries, origs, impl, reference(meta, sc.root), guard


def paths_recipes(ctx, mode):
    """the recipes of the families look-up and working-directory (functions of the tier and of ctx.rng)"""
    thorough = ctx.tier == "thorough"
    out = []
    pl = B
    multi = [B + 7, 0, 2 * B, 300]
    dmg = [["flip", 2, B + 1], ["trunc", 3, 100]]
    dmg1 = [["flip", 0, 5]]
    if mode == "C04":
        states = [(dmg, []), (dmg1, [])]
    elif mode == "C05":
        states = [([], dmg)]
    else:
        states = [([], dmg), (dmg, []), (dmg1, [])]
    layouts = [       # (label, parent shape, decoys, single)
        ("parent directory's name ENDS WITH the torrent name", "ends-with", [], False),
        ("parent directory's name ENDS WITH the torrent name", "ends-with-glued", [], True),
        ("parent directory's name BEGINS WITH the torrent name", "begins-with", [], False),
        ("parent directory's name CONTAINS the torrent name", "contains", [], True),
        ("payload root CONTAINS a directory named like the torrent holding another copy", "unrelated", ["inside-root"], False),
        ("payload root contains a FILE named like the torrent", "unrelated", ["file-inside-root"], False),
        ("parent's name ends with the torrent name AND the root contains a directory named like it", "ends-with", ["inside-root"], False),
        ("SIBLING directories whose names extend the torrent name hold another copy", "unrelated", ["NAME2", "old-NAME", "NAME.d"], False),
        ("SIBLING directories whose names extend the torrent name hold another copy", "begins-with", ["NAME2", "NAME.bin"], True),
    ]
    names = ["album", "x", "a b"]
    n = 0
    for li, (label, shape, decoys, single) in enumerate(layouts):
        name = names[li % len(names)] + (".bin" if single else "")
        kinds = PATH_KINDS if thorough else [PATH_KINDS[(li * 3 + j) % len(PATH_KINDS)] for j in range(3)]
        for kind in kinds:
            seed = ctx.rng.getrandbits(64)
            for si, (damage, decoy_damage) in enumerate(states):
                if single:
                    damage = [d for d in damage if d[1] == 0][:1] or ([["trunc", 0, B]] if damage else [])
                    decoy_damage = [["flip", 0, 3]] if decoy_damage else []
                for via in ("parent", "root"):
                    for pi, spelling in enumerate(PATH_SPELLINGS):
                        n += 1
                        if single and via == "root" and spelling in NOT_FOR_A_FILE:
                            continue
                        if not thorough and (n + si) % 2 and spelling not in ("relative", "absolute"):
                            continue
                        route = "library"
                        if n % 5 == 0:
                            route = "cli.execute"
                        elif n % (23 if thorough else 61) == 0:
                            route = "cli-subprocess"
                        out.append({"scope": "aimed-paths", "family": "look-up", "label": label, "parent_name": PARENT_SHAPES[shape](name),
                                    "name": name, "single": single, "sizes": [2 * B + 9] if single else multi, "piece_length": pl,
                                    "metafile": kind, "content_seed": seed, "damage": damage, "decoys": decoys,
                                    "decoy_damage": decoy_damage if decoys else None, "via": via, "spelling": spelling,
                                    "cwd": "holding" if (n // 7) % 2 == 0 else "one level higher", "route": route})
    # the working directory is not the metafile's folder
    wd_spellings = ["name", "./name", "name/", ".", "../work/name", "../work"]
    for wi, single in enumerate((False, True, False) if not thorough else (False, True, False, True, False, True)):
        kinds = PATH_KINDS if thorough else [PATH_KINDS[(wi * 3 + 1 + j) % len(PATH_KINDS)] for j in range(3)]
        for ki, kind in enumerate(kinds):
            seed = ctx.rng.getrandbits(64)
            name = names[(wi + ki) % len(names)] + (".bin" if single else "")
            for si, (damage, decoy_damage) in enumerate(states):
                if single:
                    damage = [d for d in damage if d[1] == 0][:1] or ([["trunc", 0, B]] if damage else [])
                    decoy_damage = [["flip", 0, 3]] if decoy_damage else []
                for pi, spelling in enumerate(wd_spellings):
                    n += 1
                    if single and spelling in NOT_FOR_A_FILE:
                        continue
                    via = "parent" if spelling in (".", "../work") else "root"
                    route = ["cli.execute", "library", "cli.execute"][n % 3]
                    if (pi + ki + si) % (3 if thorough else 4) == 0:
                        route = "cli-subprocess"
                    out.append({"scope": "aimed-paths", "family": "working-directory",
                                "label": "relative content argument; the metafile's folder holds another copy of the payload",
                                "parent_name": "work", "name": name, "single": single, "sizes": [2 * B + 9] if single else multi,
                                "piece_length": pl, "metafile": kind, "content_seed": seed, "damage": damage, "decoy_damage": decoy_damage,
                                "via": via, "spelling": spelling, "metafile_arg": "absolute" if n % 2 else "relative", "route": route})
    return out


CREATE_SPELLINGS = [        # (label, working directory below the base, content argument; PAYLOAD = the payload's name, ABS = its absolute path)
    ("cd payload; create .", "PAYLOAD", "."),
    ("cd payload/sub; create ..", "PAYLOAD/sub", ".."),
    ("cd payload/sub/deep; create ../..", "PAYLOAD/sub/deep", "../.."),
    ("create payload/sub/..", "", "PAYLOAD/sub/.."),
    ("create /abs/payload/sub/deep/../..", "", "ABS/sub/deep/../.."),
    ("create payload/.", "", "PAYLOAD/."),
    ("create ./payload/", "", "./PAYLOAD/"),
    ("cd payload; create ../payload", "PAYLOAD", "../PAYLOAD"),
    ("create payload", "", "PAYLOAD"),
    ("create /abs/payload/", "PAYLOAD/sub", "ABS/"),
]
CREATE_SPELLINGS_SINGLE = [
    ("create ./p.bin", "", "./PAYLOAD"),
    ("create d/../p.bin", "", "d/../PAYLOAD"),
    ("cd d; create ../p.bin", "d", "../PAYLOAD"),
    ("create /abs/./p.bin", "d", "DIR/./PAYLOAD"),
]
CREATE_ROUTES = ["v1", "v1-align", "v2-class", "v2-asm", "hybrid-class", "hybrid-asm", "cli-1", "cli-2", "cli-3"]


def create_recipes(ctx):
    out = []
    n = 0
    for single, spellings in ((False, CREATE_SPELLINGS), (True, CREATE_SPELLINGS_SINGLE)):
        for pi, (label, cwd, arg) in enumerate(spellings):
            for route in CREATE_ROUTES:         # (cheap: every creator and the command line for every spelling in both tiers)
                n += 1
                out.append({"scope": "aimed-paths", "family": "created-through-spelling", "label": label, "create_cwd": cwd, "create_arg": arg,
                            "creator": route, "metafile": route, "single": single, "name": ["payload", "x", "a b"][n % 3] + (".bin" if single else ""),
                            "parent_name": "made", "deep": not single, "sizes": [B + 9] if single else [B + 5, 100, 2 * B, 0],
                            "piece_length": [B, 2 * B][n % 2], "content_seed": ctx.rng.getrandbits(64), "damage": [],
                            "outfile": "relative" if n % 2 else "absolute"})
    return out


def create_eval(base, rec, home):
    """create the metafile through the recorded spelling, then recheck the intact payload through root and parent
       -> (sc, {"root": answer, "parent": answer, "cli": answer}, info.name recorded, reference (matched, total) or text)"""
    rec0 = dict(rec, metafile="ref-v1")
    sc = paths_payload(base, rec0)
    if rec["single"]:
        os.makedirs(os.path.join(sc.parent, "d"), exist_ok=True)
    rep = lambda s: s.replace("PAYLOAD", sc.name).replace("ABS", sc.root).replace("DIR", sc.parent)   # noqa
    cwd = os.path.normpath(os.path.join(sc.parent, rep(rec["create_cwd"])))
    arg = rep(rec["create_arg"])
    out_abs = os.path.join(base, "out", "p.torrent")
    os.makedirs(os.path.dirname(out_abs), exist_ok=True)
    out = out_abs if rec["outfile"] == "absolute" else os.path.relpath(out_abs, cwd)
    route = rec["creator"]
    try:
        with chdir(cwd):
            if route.startswith("cli-"):
                core.use_repo_in_process()
                from torrentfile import utils
                from torrentfile.cli import execute
                cache = getattr(utils.filelist_total, "cache", None)
                if cache is not None:
                    cache.clear()
                pw = {B: "14", 2 * B: "15"}[rec["piece_length"]]
                trees.quiet(execute, ["create", arg, "-o", out, "--meta-version", route[-1], "--piece-length", pw])
            else:
                trees.create(route, arg, out, rec["piece_length"])
    except BaseException as e:  # noqa
        return sc, {"create": f"{type(e).__name__}: {e}"}, None, None
    if not os.path.exists(out_abs):
        return sc, {"create": f"no metafile at {out_abs}"}, None, None
    meta = decode_meta(open(out_abs, "rb").read())
    try:
        ref = reference(meta, sc.root)[:2]
    except Exception as e:  # noqa
        ref = f"reference verifier: {type(e).__name__}: {e}"
    ans = {}
    for via, p in (("root", sc.root), ("parent", sc.parent)):
        r = impl_run(out_abs, p)
        ans[via] = r.get("error", r.get("result"))
    ans["cli"] = cli_result(out_abs, sc.root, home)
    return sc, ans, meta[b"info"].get(b"name"), ref


def aimed_paths(ctx, mode, tmp):
    """PATHS_RULE"""
    for n, rec in enumerate(paths_recipes(ctx, mode)):
        base = os.path.join(tmp, f"ap{n}")
        if rec["route"] == "cli-subprocess":
            rec["cli_hashseed"] = (rec["content_seed"] >> 11) % 4294967295 + 1
        try:
            sc, entries, origs, impl, ref, guard = paths_eval(base, rec, tmp)
        except Exception as e:  # noqa
            ctx.broken.append(f"aimed_paths: {type(e).__name__}: {e} on {rec}")
            shutil.rmtree(base, ignore_errors=True)
            continue
        kind = rec["metafile"]
        if entries is None:
            ctx.fail("create-raised", sc.describe(kind, None, rec), "a metafile", sc.errors.get(kind))
        else:
            per_file = view_of(sc.metas[kind][1]) == "v2"
            inp = sc.describe(kind, rec["damage"], rec)
            where = "paths-" + rec["family"] + ("-v2" if per_file else "-v1")
            if rec["route"] != "library" and mode == "C16":
                # the command line prints the number only: the value is judged, not the verdict stream
                if "error" in impl:
                    ctx.fail(where + "-recheck-raised", inp, "a percentage", impl["error"])
                elif guard is True and impl["result"] != ratio(ref[0], ref[1]):
                    ctx.fail(where + "-percentage-not-the-share", inp, ratio(ref[0], ref[1]), impl["result"],
                             detail=f"reference matched/total = {ref[0]}/{ref[1]}")
            else:
                judge(ctx, mode, where, inp, entries, origs, impl, ref, guard_ok=guard)
            cl = {rec["label"], "metafile " + kind, "content path = " + ("parent directory" if rec["via"] == "parent" else "payload root"),
                  "content argument spelled: " + rec["spelling"], "route: " + rec["route"]}
            if rec["family"] == "look-up":
                cl.add("working directory: " + rec["cwd"])
            else:
                cl.add("metafile argument " + rec["metafile_arg"])
            if rec["single"]:
                cl.add("single-file payload")
            ctx.case(key=("aimed-paths", n), classes=sorted(cl), nontrivial=True)
        shutil.rmtree(base, ignore_errors=True)
    if mode != "C05":
        return
    for n, rec in enumerate(create_recipes(ctx)):
        base = os.path.join(tmp, f"cp{n}")
        try:
            sc, ans, recorded_name, ref = create_eval(base, rec, tmp)
        except Exception as e:  # noqa
            ctx.broken.append(f"aimed_paths (created): {type(e).__name__}: {e} on {rec}")
            shutil.rmtree(base, ignore_errors=True)
            continue
        inp = sc.describe(rec["creator"], [], rec)
        if "create" in ans:
            ctx.fail("paths-create-raised", inp, "a metafile", ans["create"])
        else:
            for via, a in ans.items():
                if not (isinstance(a, float) and a == 100):
                    ctx.fail("paths-created-through-spelling-intact-not-100", dict(inp, content_path=via), 100.0, a,
                             detail=f"info.name recorded: {recorded_name!r}; the payload is {sc.name!r}; reference verifier on the created "
                                    f"metafile (matched, total): {ref}")
        ctx.case(key=("aimed-paths-created", n), nontrivial=True,
                 classes=["metafile created through a path spelling: " + rec["label"], "creator " + rec["creator"],
                          "output file argument " + rec["outfile"], "content path = parent directory"] +
                         (["single-file payload"] if rec["single"] else []))
        shutil.rmtree(base, ignore_errors=True)


def replay_paths(ctx, mode, inp, tmp):
    """-> (impl, ref) of a recorded aimed-paths input"""
    base = os.path.join(tmp, "ap")
    if inp["family"] == "created-through-spelling":
        sc, ans, recorded_name, ref = create_eval(base, inp, tmp)
        print("payload:", sc.root, "files:", {"/".join(c): len(x) for c, x in sc.files}, "created by:", inp["creator"], "as:", inp["label"])
        print("info.name recorded:", recorded_name, " answers:", ans)
        if "create" in ans:
            return {"error": ans["create"]}, (0, 0, [])
        a = ans.get(inp.get("content_path", "root"))
        bad = [x for x in ans.values() if not (isinstance(x, float) and x == 100)]
        a = bad[0] if bad else a
        impl = {"error": a} if isinstance(a, str) else {"result": a, "results()": a, "trace": []}
        return impl, (ref[0], ref[1], []) if isinstance(ref, tuple) else (0, 0, [])
    sc, entries, origs, impl, ref, guard = paths_eval(base, inp, tmp)
    print("payload:", sc.root, "files:", {"/".join(c): len(x) for c, x in sc.files}, "layout:", inp["label"])
    print("content path:", inp["via"], "spelled", inp["spelling"], "route:", inp["route"], "damage:", inp["damage"],
          "other copies:", inp.get("decoys", "next to the metafile"), "their damage:", inp.get("decoy_damage"))
    return impl, ref


# ----------------------------------------------------------------------- end to end at SCALE
SCALE_RULE = (
    "  AT SCALE (end to end only; same judge -- the reference verifier of harness/ref/oracle.py -- as the small cases; nothing of it goes to "
    "the extracted models): (a) the aimed payloads of harness/scale.py -- piece lengths 2 / 4 / 8 / 16 MiB (thorough: also 32 MiB and random "
    "shapes k MiB + r), files of 1 .. 21 MiB (65 MiB) whose sizes relate to 1 / 4 / 8 MiB read windows: a file that completes a piece inside "
    "itself and leaves a non-zero multiple of 1 MiB, more than 8 MiB left to read at 16 MiB pieces, a last piece just above 4 MiB at 8 MiB "
    "pieces, sizes one byte either side of the piece length, a single file -- and (b) payloads with DUPLICATE CONTENT: two or three "
    "INDEPENDENT copies (no links) of the same bytes, 48 KiB .. 3 MiB either side of 1 MiB, first / last / in a subdirectory, around a "
    "different file, at piece lengths 16 / 32 / 64 KiB and 2 / 4 MiB (copies longer and not longer than a piece).  Metafiles: quick tier five "
    "kinds per case rotating (a v1 creator, a reference v1 encoding incl. the attr x/h and pad-entry ones, reference v2, reference hybrid, one "
    "of v2-class / v2-asm / hybrid-class / hybrid-asm; duplicates: three), thorough tier every kind for every template.  States by mode: "
    "C05 intact (root AND parent, and an object that saw a damaged tree asked again once the content is back); C04 damage sets (an object "
    "that saw the intact tree asked again; first state also through the parent); C16 intact + damage sets (value, verdict stream, an object "
    "reused after the disk changed; thorough: first state also through the parent).  Damage at scale: 1..3 of flip (bits recorded) / truncate / remove at offsets next to multiples of "
    "1 / 4 / 8 MiB and of the piece length (first, second, last; one byte either side), both ends, random ones, truncation to 0; for duplicate "
    "content aimed sets: ONLY the later copy flipped, ONLY the later copy truncated, ONLY the earlier copy flipped (thorough: later copy "
    "removed, both copies damaged differently, a middle copy).  A part through cli.execute.  Replays rebuild the payload from the recorded "
    "case seed / family / index and apply the recorded damage.  The whole-run tie (recheck_model) also takes a small payload with two entries of "
    "identical multi-piece content (independent copies first and last, a different file between them) for every v2-view kind and v1.")


TEXT_RULE = (
    "  TEXT VERSUS BYTES (every mode; end to end, and in the Checker.__init__ tie and the whole-run tie recheck_model, whose decoder keeps bytes): "
    "(a) NAMES that are not stable under a transformation of text, created on disk exactly so (NAME_SHAPES): DECOMPOSED (NFD) file and "
    "directory names (cafe+U+0301.bin, re+U+0301sume+U+0301/...), a payload directory and a single-file payload whose own name is NFD, "
    "canonically / compatibility-equivalent names side by side as DIFFERENT files (U+00E9 and e+U+0301; U+00C5, U+212B and A+U+030A; a "
    "directory in both forms; ligature fi, circled one, full-width letters; OHM SIGN / U+03A9; MICRO SIGN / U+03BC) -- once with DIFFERENT "
    "content per spelling (intact must be 100, damage judged piece by piece) and once with IDENTICAL content in every group of equivalent "
    "spellings and three damage sets confined to the decomposed / the composed / the ligature spellings (hidden from a checker that "
    "composes, decomposes or applies a compatibility form: it would report 100) -- and names with glob / regular-expression metacharacters "
    "(a[1].bin next to an identical a1.bin, st*r.txt / star.txt, wh?t / what, d[0-9]/f* / d5/f1, each pair damaged alone in the "
    "metacharacter name; payload p[1] with {x,y}, [!a], (z)+$, d*/b?.bin); metafiles of the six creators and of the reference encoder "
    "(v1, v1 with attr, v2, hybrid), payload root AND parent directory; judged by the reference verifier.  (b) RECORDED HASH STRINGS THAT ARE VALID UTF-8 WITH A MULTI-BYTE "
    "CHARACTER (pyben returns str: the length and offsets of the text differ from those of the bytes; characters of 2, 3 and 4 bytes, text "
    "shorter than the bytes by exactly 1 and by more): v1 -- the WHOLE `pieces` string of 1, 2, 3 (thorough: up to 5) pieces at 16 KiB and 32 KiB piece length, "
    "single file / one file in a directory / the stream cut into several files incl. an empty one, kinds v1, reference v1 (+ attr); intact and "
    "damaged: a flip in the LAST piece, in the first, in a middle piece, the last byte cut off, the whole last piece missing; v2 / hybrid "
    "(all six kinds of the v2 view) -- the pieces root of a file not longer than a piece (17-byte file, a file exactly one piece long, two "
    "blocks under a 32 KiB piece; single-file payload, only file of a directory, next to other files, three such files together at 64 KiB "
    "pieces), the piece layers VALUE of a three-piece file, the pieces root of a multi-piece file (a piece layers KEY); intact and damaged: "
    "the aimed file flipped / one byte short / removed, and ONLY A NEIGHBOUR flipped (the aimed piece must still verify).  The contents are "
    "kept as recipes in harness/data/utf8_digests.json (found by search_utf8_contents: SHA-1 ~1e-5, SHA-256 ~1e-8 per try) and every digest is "
    "recomputed and re-checked on every run; a failing input carries the parts of its payload (scope aimed-utf8) and replays from them.  "
    "The fresh-interpreter CLI runs salt str hashes with a seed derived from the case seed (recorded as cli_hashseed) instead of 0.")


MIB = 1 << 20
SCALE_SALT = 0x5CA1ED
SCALE_RANDOM = {"dup": 10, "scale": 16}       # random cases per family after the templates (thorough tier)

# Payloads with DUPLICATE CONTENT: (piece length, [(file, size, content id)], aim).  Files with the same content id are
# INDEPENDENT copies of the same bytes (no links): a v2 / hybrid metafile records the same pieces root for them and ONE piece
# layers entry, and each copy is damaged on its own.  Sizes either side of 1 MiB, at ordinary piece lengths and at scale.
DUP_TEMPLATES = [
    (16384, [("a.bin", MIB + 5, 0), ("b.bin", MIB + 5, 0), ("c.bin", 70000, 1)],
     "two copies just above 1 MiB at 16 KiB pieces, then a different file"),
    (65536, [("a.bin", 2 * MIB, 0), ("b.bin", 100, 1), ("d/a.bin", 2 * MIB, 0)],
     "two copies of exactly 2 MiB around a small file, 64 KiB pieces, the later copy in a subdirectory"),
    (2 * MIB, [("a.bin", 3 * MIB, 0), ("b.bin", 3 * MIB, 0)], "two copies of 3 MiB at 2 MiB pieces"),
    (32768, [("a.bin", MIB, 0), ("b.bin", MIB, 0), ("c.bin", MIB, 0)], "three copies of exactly 1 MiB, 32 KiB pieces"),
    (4 * MIB, [("a.bin", MIB + 1, 0), ("b.bin", 5 * MIB, 1), ("c.bin", MIB + 1, 0)],
     "copies shorter than the piece length (no piece layers entry) around a multi-piece file"),
    (16384, [("a.bin", 3 * 16384 + 7, 0), ("b.bin", 3 * 16384 + 7, 0), ("c.bin", 5, 1)], "small copies of three pieces and a bit"),
    (32768, [("a.bin", MIB - 1, 0), ("b.bin", 40000, 1), ("c.bin", MIB - 1, 0)], "two copies just below 1 MiB"),
]


def dup_gen(rng, n):
    """duplicate-content case n: the templates in turn, then random ones of the same kind -> (pl, tree, classes, aim)"""
    if n < len(DUP_TEMPLATES):
        pl, spec, aim = DUP_TEMPLATES[n]
    else:
        pl = rng.choice([16384, 32768, 65536, 2 * MIB, 4 * MIB])
        size = rng.choice([MIB - 1, MIB, MIB + 1, 2 * MIB, 3 * MIB, 2 * pl + 7 if pl < MIB else pl + MIB, rng.randrange(2 * B, 3 * MIB)])
        names = rng.sample(scale.NAMES, rng.randrange(2, 5))
        ncopies = rng.randrange(2, min(3, len(names)) + 1)
        copies = set(rng.sample(names, ncopies))
        spec = [(nm, size, 0) if nm in copies else (nm, rng.choice([100, 70000, MIB + 5]), 1 + k) for k, nm in enumerate(sorted(names))]
        aim = "random duplicate-content payload"
    contents, tree = {}, {}
    for name, size, cid in spec:
        if cid not in contents:
            contents[cid] = rng.randbytes(size)
        tree[tuple(name.split("/"))] = bytes(bytearray(contents[cid]))      # a copy, not the same object
    size = max(len(contents[0]), 1)
    classes = {"duplicate content: " + aim,
               "duplicate content: copies of %s" % ("1 MiB or more" if size >= MIB else "less than 1 MiB"),
               "duplicate content: copies %s" % ("longer than a piece (piece layers entry shared)" if size > pl else "not longer than a piece")}
    classes.add("scale: piece length %d MiB" % (pl // MIB) if pl >= MIB else "duplicate content: piece length %d KiB" % (pl // 1024))
    return pl, tree, classes, aim


def scale_offsets(L, pl, rng):
    """offsets of a file of L bytes next to the places where buffered reads change hands: multiples of 1 / 4 / 8 MiB and of the
       piece length (the first, the second and the last of each, one byte either side), both ends, two random ones"""
    c = {0, 1, L - 2, L - 1, L // 2, ((L - 1) // pl) * pl, rng.randrange(L), rng.randrange(L)}
    for w in (MIB, 4 * MIB, 8 * MIB, pl):
        for k in {1, 2, L // w, (L - 1) // w}:
            c |= {k * w - 1, k * w, k * w + 1}
    return sorted(x for x in c if 0 <= x < L)


def scale_damage(rng, files, pl, ndmg, single):
    """a damage set on `ndmg` distinct non-empty files: flip (the flipped bits are recorded) / truncate (to 0, to a multiple of a
       read window or of the piece length, one byte either side, ...) / remove -> (state, description for apply_desc)"""
    desc = []
    nonempty = [i for i, (_, d) in enumerate(files) if d]
    for i in sorted(rng.sample(nonempty, min(ndmg, len(nonempty)))):
        L = len(files[i][1])
        r = rng.random()
        if r < 0.4:
            desc.append(["flip", i, rng.choice(scale_offsets(L, pl, rng)), rng.choice([0xFF, 0x01, 0x80])])
        elif r < 0.8 or single:
            desc.append(["trunc", i, rng.choice(scale_offsets(L, pl, rng) + [0])])
        else:
            desc.append(["rm", i])
    return apply_desc(files, desc), desc


def dup_groups(files):
    """indices (in listing order) of the files that share their content with another file"""
    by = {}
    for i, (_, d) in enumerate(files):
        if d:
            by.setdefault(hashlib.sha256(d).digest(), []).append(i)
    return [g for g in by.values() if len(g) > 1]


def dup_sets(rng, files, pl, mode, thorough):
    """damage sets aimed at duplicate content: [(class label, description)] -- ONLY the later copy (flip; truncation), ONLY the
       earlier copy, (thorough tier) the later copy removed, both copies damaged in different places"""
    g = max(dup_groups(files), key=len)
    first, last = g[0], g[-1]
    L = len(files[first][1])
    offs = scale_offsets(L, pl, rng)
    cuts = [x for x in offs if x > 0]
    out = [("damage only in the LATER copy (flip)", [["flip", last, rng.choice(offs), rng.choice([0xFF, 0x01, 0x80])]]),
           ("damage only in the LATER copy (truncated, bytes left)", [["trunc", last, rng.choice(cuts)]]),
           ("damage only in the EARLIER copy", [["flip", first, rng.choice(offs), 0xFF]])]
    if thorough:
        out.append(("the later copy removed", [["rm", last]]))
        a, b = rng.sample(offs, 2)
        out.append(("both copies damaged in different places", [["flip", first, a, 0x01], ["trunc", last, max(b, 1)]]))
        if len(g) > 2:
            out.append(("damage only in a MIDDLE copy", [["flip", g[1], rng.choice(offs), 0x80]]))
    return out


def scale_kinds(cn, thorough, template, family):
    """the metafile kinds of case cn at scale: every kind for the templates of the thorough tier; else five -- a v1 creator, a
       reference v1 encoding (at least one of the two without padding between the files), reference v2, reference hybrid and one
       of the four v2-view creators -- rotating with the case number (quick tier, duplicate content: three -- one of the v1-view
       kinds, reference v2 or reference hybrid, one v2-view creator)"""
    if thorough and template:
        return list(KINDS)
    v2c = ("v2-class", "hybrid-asm", "hybrid-class", "v2-asm")[cn % 4]
    if family == "dup" and not thorough:
        return [("ref-v1", "v1", "ref-v1-attr", "v1-align")[cn % 4], ("ref-v2", "ref-hybrid")[cn % 2], v2c]
    return [("v1", "v1-align", "v1")[cn % 3], ("ref-v1", "ref-v1-attr", "ref-v1-attr-pad")[cn % 3], "ref-v2", "ref-hybrid", v2c]


def scale_case(base, case_seed, family, n, thorough, kinds):
    """case n of a family ("dup": duplicate content; "scale": harness/scale.py) as a function of its seed (a replay file
       rebuilds it): (scenario, generator classes, aim, is a template)"""
    rng = random.Random(case_seed)
    if family == "dup":
        pl, tree, classes, aim = dup_gen(rng, n)
        template = n < len(DUP_TEMPLATES)
    else:
        pl, tree, classes = scale.gen(rng, n, thorough=thorough)
        tpl = scale.templates(thorough)
        template = n < len(tpl)
        aim = tpl[n][2] if template else "random sizes k MiB + r"
    return Scenario(base, rng, pl=pl, tree=tree, kinds=kinds), set(classes), aim, template


def write_changes(sc, cur, new):
    """bring the disk from state `cur` to state `new` writing only the files that differ (the payloads are large)"""
    for (comps, _), a, b in zip(sc.files, cur, new):
        if a is not b and a != b:
            write_file(path_of(sc.root, comps, sc.single), b)


def damage_classes(files, desc, pl):
    cl = set()
    for d in desc:
        L = len(files[d[1]][1])
        if d[0] == "rm":
            cl.add("scale: a file removed")
        elif d[0] == "trunc":
            n = d[2]
            cl.add("scale: truncated to 0" if n == 0 else
                   "scale: truncated to a non-zero multiple of 1 MiB" if n % MIB == 0 else
                   "scale: truncated within 1 byte of a multiple of 1 MiB" if (n + 1) % MIB < 3 else "scale: truncated elsewhere")
        else:
            o = d[2]
            cl.add("scale: flip in the first 1 MiB of a file" if o < MIB else
                   "scale: flip in the last 1 MiB of a file of more than 2 MiB" if o >= L - MIB else "scale: flip beyond the first 1 MiB of a file")
            if pl >= MIB and o >= pl:
                cl.add("scale: flip beyond the first piece of a file")
    return cl


def e2e_scale(ctx, mode, tmp):
    """
    Checker.results() / iter_hashes() / the CLI versus the reference verifier AT SCALE: the payloads of harness/scale.py (piece
    lengths 2 .. 16 MiB -- 32 MiB in the thorough tier --, file sizes aimed at 1 / 4 / 8 MiB read windows) and payloads with
    DUPLICATE CONTENT (independent copies of 48 KiB .. 3 MiB, piece lengths 16 KiB .. 4 MiB), metafiles of the real creators and
    of the reference encoder (v1 / v2 / hybrid), intact and damaged (flips, truncations, removals next to window and piece
    boundaries; for duplicates the later copy only / the earlier copy only / both), through the payload root and the parent
    directory, judged by the same `judge` as the small cases.  Nothing here goes to the extracted models.
    """
    thorough = ctx.tier == "thorough"
    plan = [("dup", n) for n in range(len(DUP_TEMPLATES) + (SCALE_RANDOM["dup"] if thorough else 0))] + \
           [("scale", n) for n in range(len(scale.templates(thorough)) + (SCALE_RANDOM["scale"] if thorough else 0))]
    nsets = 3 if thorough else (1 if mode == "C16" else 2)
    for cn, (family, n) in enumerate(plan):
        case_seed = ctx.rng.getrandbits(64)
        base = os.path.join(tmp, f"sc{cn}")
        template = n < (len(DUP_TEMPLATES) if family == "dup" else len(scale.templates(thorough)))
        sc, gcl, aim, _ = scale_case(base, case_seed, family, n, thorough, scale_kinds(cn, thorough, template, family))
        recipe = {"scope": "scale", "case_seed": case_seed, "scale_family": family, "scale_index": n, "scale_thorough": thorough,
                  "aim": aim}
        for k, err in sc.errors.items():
            ctx.fail("create-raised", sc.describe(k, None, recipe), "a metafile", err)
        drng = random.Random(case_seed ^ SCALE_SALT)
        intact = [d for _, d in sc.files]
        sets = [] if mode == "C04" else [("intact", intact, [])]
        if mode != "C05":
            if family == "dup":
                sets += [("duplicate content: " + lb, apply_desc(sc.files, d), d) for lb, d in dup_sets(drng, sc.files, sc.pl, mode, thorough)]
            for _ in range(nsets if family == "scale" else (1 if thorough else 0)):
                st, d = scale_damage(drng, sc.files, sc.pl, drng.randrange(1, 4), sc.single)
                sets.append((None, st, d))
        # objects that are kept and asked again after the disk changed (C04: they saw the intact tree; C05: a damaged one; C16: one
        # object that saw the intact tree).  Templates of the thorough tier: every kind, every plan; else one kind (rotating), the plan
        # `results()`
        plans = list(REUSE_PLANS) if thorough and template else ["results()"]
        present = list(sc.metas)
        held_kinds = set(present) if thorough and template else set(present[cn % len(present):][:1])
        reuse, held, ddesc = {}, {}, None
        if mode == "C05":
            dstate, ddesc = scale_damage(drng, sc.files, sc.pl, drng.randrange(1, 3), sc.single)
            write_changes(sc, intact, dstate)
        if mode in ("C04", "C05"):
            for kind in held_kinds:
                reuse[kind] = Held(sc.metas[kind][0], sc.root, plans)
                reuse[kind].ask_all()
        cur = dstate if mode == "C05" else intact
        for sn, (label, state, desc) in enumerate(sets):
            write_changes(sc, cur, state)
            cur = state
            dcl = damage_classes(sc.files, desc, sc.pl) | ({label} if label and label != "intact" else set())
            for kind, (mf, meta) in sc.metas.items():
                entries, origs = sc.entries(kind)
                per_file = view_of(meta) == "v2"
                ref = reference(meta, sc.root)
                inp = sc.describe(kind, desc, dict(recipe, set_index=sn))
                guard = True
                if per_file:
                    g = v2_piece_guard(entries, origs, sc.pl)
                    guard = True if all(g) else g
                cl = {("v2: " if per_file else "") + c for c in classify(entries, origs, sc.pl, per_file)} | {"metafile " + kind} | gcl | dcl
                cl.add("scale: end-to-end case at scale" if family == "scale" else "duplicate content: end-to-end case")
                where = ("scale-" if family == "scale" else "dup-") + ("v2" if per_file else "v1")
                if mode == "C16":
                    impl = impl_run(mf, sc.root)
                    if sn == 0 and kind in held_kinds:
                        try:
                            held[kind] = new_checker(mf, sc.root)
                            trees.quiet(held[kind].results)
                        except Exception:  # noqa
                            held.pop(kind, None)
                    elif kind in held and "error" not in impl:
                        again = ask(held[kind], "results()")
                        cl.add("a Checker object reused after the disk changed")
                        if again != impl["result"]:
                            ctx.fail("reused-checker-object-differs", dict(inp, earlier_states=[d for _, _, d in sets[:sn]]),
                                     f"{impl['result']} (what a fresh Checker reports for this disk state)", again)
                else:
                    r = impl_result(mf, sc.root)
                    impl = {"error": r} if isinstance(r, str) else {"result": r, "results()": r, "trace": []}
                judge(ctx, mode, where, inp, entries, origs, impl, ref, guard_ok=guard)
                if guard is not True:
                    cl.add("v2: a piece excluded by the not-all-zero restriction")
                if mode == "C04" and kind in reuse:
                    cl.add("a Checker object reused after the disk changed (intact -> damaged)")
                    reuse_c04(ctx, reuse[kind], inp, entries, origs, [[]] + [d for _, _, d in sets[:sn]])
                if mode == "C05" and kind in reuse:
                    cl.add("a Checker object reused after the disk changed (damaged -> restored)")
                    reuse_c05(ctx, reuse[kind], inp, [ddesc])
                ri = impl.get("result", impl.get("error"))
                # content path = parent directory: the same verdict (C05: every case; C04, and C16 in the thorough tier: the first
                # state of each case)
                if mode == "C05" or (sn == 0 and (mode == "C04" or thorough)):
                    rp = impl_result(mf, sc.parent)
                    cl.add("content path = parent directory")
                    if rp != ri:
                        ctx.fail("root-vs-parent", dict(inp, content_path="parent"), f"same verdict as through the root: {ri}", rp)
                # the command line (cli.execute) for the first state of every third case
                if cn % 3 == 1 and sn == 0:
                    rcli = cli_result(mf, sc.root, tmp)
                    cl.add("through the CLI (cli.execute)")
                    if rcli != ri and not (isinstance(ri, str) and isinstance(rcli, str)):
                        ctx.fail("cli-vs-library", inp, ri, rcli)
                ctx.case(key=("e2e-scale", mode, family, n, sn, kind), classes=sorted(cl), nontrivial=True,
                         sample=inp if (cn, sn) == (len(DUP_TEMPLATES) + 1, 0) and kind == "ref-v2" else None)
        shutil.rmtree(base, ignore_errors=True)


def classify_failure(failure):
    inp = failure.get("input") or {}
    if isinstance(inp, dict):
        if inp.get("parent_named_like_payload"):
            return "D33"
    return None


def record_ast(ctx):
    try:
        ctx.extra["ast_hashes"] = core.ast_hash(os.path.join(core.REPO, "torrentfile", "recheck.py"), HASHED)
    except Exception as e:  # noqa
        ctx.notes.append(f"ast hash failed: {e}")


def run(ctx, mode, model_ok):
    import time
    record_ast(ctx)
    from props import recheck_pipeline
    # (tie_pipeline: the composition Checker(metafile, path) -> (total, matched, consumed) of Model/RecheckInit.v; tie_ref_encoder:
    # the Coq reference encoder)
    for phase in (tie_small_v1, tie_generated, tie_checkpaths, recheck_pipeline.tie_pipeline, recheck_pipeline.tie_ref_encoder):
        t0 = time.time()
        phase(ctx, mode, model_ok)
        if os.environ.get("VERIF_TIMING"):
            print(f"[timing] {phase.__name__} {time.time() - t0:.1f}s", file=sys.stderr)
    t0 = time.time()
    e2e(ctx, mode)
    if os.environ.get("VERIF_TIMING"):
        print(f"[timing] e2e {time.time() - t0:.1f}s", file=sys.stderr)
    # smallest failing inputs first, so that the replay written per kind is the simplest one found
    def weight(f):
        inp = f.get("input") or {}
        if not isinstance(inp, dict):
            return (9, 0)
        if inp.get("scope") == "small-v1":
            return (0, len(inp.get("sizes", [])) * 100 + sum(inp.get("sizes", [])))
        return (1, len(inp.get("files", {})) * 10 ** 7 + sum(inp.get("files", {}).values()) if isinstance(inp.get("files"), dict) else 0)
    ctx.failures.sort(key=weight)


# --------------------------------------------------------------------------------------- replay
def replay(ctx, mode, data):
    """rebuild the input of a replay file in a scratch directory, run implementation and reference, print both"""
    inp = data.get("input") or {}
    print(f"[{ctx.prop}] replay kind={data.get('kind')} input={inp}")
    if not isinstance(inp, dict) or "scope" not in inp:
        print(data)
        return 0
    rc = 0
    reuse, seq_states = inp.get("reuse"), None
    with core.Scratch("vrcr_") as tmp:
        os.environ["HOME"] = tmp
        if inp["scope"] == "small-v1":
            sizes, pl, single, dmg = inp["sizes"], inp["piece_length"], inp["single"], inp["damage"]
            datas = [small_data(i, s) for i, s in enumerate(sizes)]
            files = [((f"f{i}",), d) for i, d in enumerate(datas)]
            root = os.path.join(tmp, "p")
            mf = os.path.join(tmp, "m.torrent")
            raw = small_metafile(files, pl, single, inp.get("attr_variant"))
            open(mf, "wb").write(raw)
            trees.write_tree(root, {(): datas[0]} if single else dict(files))
            if dmg:
                write_file(path_of(root, (f"f{dmg[1]}",), single), apply_damage(datas[dmg[1]], tuple(dmg)))
            meta = oracle.bdecode_strict(raw)
            impl = impl_run(mf, root, want_pieces=True)
            ref = oracle.verify_v1(meta, root)
        elif inp["scope"] == "aimed":
            data_ = inp["payload"].encode()
            single = inp["single"]
            root = os.path.join(tmp, "p.bin" if single else "p")
            trees.write_tree(root, {(): data_} if single else {("a",): data_})
            name = os.path.basename(root)
            mf = os.path.join(tmp, "m.torrent")
            raw = make_metafile(inp["metafile"], root, name, [((name,), data_)] if single else [(("a",), data_)], 16384, single, mf)
            meta = decode_meta(raw)
            impl = impl_run(mf, root)
            ref = oracle.verify(meta, root)
        elif "tie_seed" in inp:
            print("model-tie case: rebuilt from tie_seed")
            sc, kind, state, desc = tie_case(os.path.join(tmp, "g"), inp["tie_seed"], inp["tie_mode"], inp["tie_pl"], inp["tie_sizes"],
                                             inp["tie_kind"], inp["tie_damage"], inp["tie_v1side"])
            print("damage:", desc)
            sc.set_state(state)
            mf, meta = sc.metas[kind]
            impl = impl_run(mf, sc.root)
            ref = reference(meta, sc.root)
        elif inp["scope"] == "aimed-layout":
            sc = layout_scenario(os.path.join(tmp, "al"), inp["content_seed"], inp["piece_length"], inp["sizes"], inp["single"],
                                 [inp["metafile"]], inp.get("shape"))
            seq_states = [apply_desc(sc.files, d) for d in (reuse or {}).get("earlier_states", [])] + [apply_desc(sc.files, inp["damage"])]
            sc.set_state(seq_states[-1])
            mf, meta = sc.metas[inp["metafile"]]
            impl = impl_run(mf, sc.parent if inp.get("content_path") == "parent" else sc.root)
            ref = reference(meta, sc.root)
        elif inp["scope"] == "aimed-utf8":
            print("aimed payload with a recorded hash string that is valid UTF-8: rebuilt from the recorded parts")
            sc = utf8_scenario(os.path.join(tmp, "us"), inp["piece_length"], inp["tree_spec"], inp["name"], [inp["metafile"]])
            sc.set_state(apply_desc(sc.files, inp["damage"]))
            mf, meta = sc.metas[inp["metafile"]]
            info = meta[b"info"]
            print("payload:", sc.root, "files:", {"/".join(c): len(x) for c, x in sc.files}, "state:", inp.get("state"))
            print("recorded:", {"pieces": info[b"pieces"]} if view_of(meta) == "v1" else
                  {"pieces roots": [r for _, _, r in oracle.v2_layout(info)], "piece layers": meta.get(b"piece layers")})
            impl = impl_run(mf, sc.parent if inp.get("content_path") == "parent" else sc.root)
            ref = reference(meta, sc.root)
        elif inp["scope"] == "aimed-paths":
            impl, ref = replay_paths(ctx, mode, inp, tmp)
        elif inp["scope"] == "scale":
            print("case at scale / with duplicate content: rebuilt from case_seed (payload) and the recorded damage")
            sc, _, aim, _ = scale_case(os.path.join(tmp, "sc"), inp["case_seed"], inp["scale_family"], inp["scale_index"],
                                       inp["scale_thorough"], [inp["metafile"]])
            print("payload:", sc.root, "files:", {"/".join(c): len(x) for c, x in sc.files}, "piece length:", sc.pl, "aim:", aim)
            if reuse:
                seq_states = [apply_desc(sc.files, d) for d in reuse["earlier_states"]] + [apply_desc(sc.files, inp["damage"])]
            sc.set_state(apply_desc(sc.files, inp["damage"]))
            mf, meta = sc.metas[inp["metafile"]]
            impl = impl_run(mf, sc.parent if inp.get("content_path") == "parent" else sc.root)
            ref = reference(meta, sc.root)
        elif inp["scope"] == "checker-init" and "cp_seed" in inp:
            print("checker-init layout: rebuilt from cp_seed")
            sc, layout = checkpaths_scenario(os.path.join(tmp, "p", "w"), inp["cp_seed"], inp["cp_index"], kinds=[inp["metafile"]])
            sc.set_state(dict(checkpaths_states(sc, inp.get("cp_mode", mode)))[inp["state"]])
            mf, meta = sc.metas[inp["metafile"]]
            print("payload:", sc.root, "files:", {"/".join(c): len(x) for c, x in sc.files}, "content path:", inp["content_path"])
            impl = impl_run(mf, sc.parent if inp["content_path"] == "parent" else sc.root)
            ref = reference(meta, sc.root)
        else:
            rng = random.Random(inp.get("case_seed", 0))
            print("generated scenario: re-derived from case_seed (tree, metafile kinds and damage sets are functions of it)")
            sc = Scenario(os.path.join(tmp, "e"), rng, kinds=[inp["metafile"]])
            intact = [d for _, d in sc.files]
            sets = [(intact, [])] if mode in ("C05", "C16") else []
            if mode != "C05":
                for _ in range(8):
                    sets.append(gen_damage_set(rng, sc.files, sc.pl, rng.randrange(1, 5), sc.single))
            k = min(inp.get("set_index", 0), len(sets) - 1)
            state, desc = sets[k]
            print("damage:", desc, "(recorded:", inp.get("damage"), ")")
            if mode == "C04":
                seq_states = [intact] + [st for st, _ in sets[:k + 1]]
            else:
                seq_states = [reuse_damage(inp.get("case_seed", 0), sc)[0], intact]
            sc.set_state(state)
            mf, meta = sc.metas[inp["metafile"]]
            impl = impl_run(mf, sc.root)
            ref = reference(meta, sc.root)
        if reuse and seq_states and "error" not in impl:
            # the SAME Checker object through the recorded sequence of disk states
            sc.set_state(seq_states[0])
            chk = new_checker(mf, sc.root)
            answers = []
            for st, via in zip(seq_states, reuse["asks"]):
                sc.set_state(st)
                answers.append((via, ask(chk, via)))
            print("one Checker object, asked after each change of the disk:", answers)
            print("a fresh Checker on the final state:", impl["result"])
            impl = dict(impl, result=answers[-1][1])
            if not is_pct(impl["result"]):
                impl = {"error": impl["result"]}
        print("implementation:", {k: (v if k != "trace" else [(a == b, s) for a, b, s in v][:40]) for k, v in impl.items() if k != "pieces"})
        print("reference     : matched/total =", ref[0], "/", ref[1], "->", ratio(ref[0], ref[1]), "verdicts", ref[2][:40])
        if "error" in impl:
            rc = 1
        else:
            res = impl["result"]
            if mode == "C05":
                rc = 0 if res == 100 else 1
            elif mode == "C04":
                rc = 0 if res < 100 or ref[0] == ref[1] else 1
            else:
                rc = 0 if res == ratio(ref[0], ref[1]) else 1
        print("verdict:", "property holds on this input" if rc == 0 else "PROPERTY VIOLATED on this input")
    return rc
