"""C10 -- all creators and all hashers agree on the same payload."""
from props import v2_common as V
from props import creators_common as cc

GEN_FILES = []
EXTRA_TARGETS = ["Extract/ExtractV2.vo", "Extract/ExtractCreators.vo"]
AREAS = ["v2", "creators"]
CREATOR_KINDS = ["v2-class", "v2-asm", "hybrid-class", "hybrid-asm"]      # both sides of both agreement theorems
RULE = ("hashers: HasherV2, HasherHybrid (padding on/off) and FileHasher (hybrid x padding, iterated to exhaustion) are run on the "
        "same file and compared with each other (root, piece layer, yielded layer hashes, v1 pieces, padding description; no v1 "
        "side without the hybrid flag) and, field by field including the iterator's end flag, with their extracted Coq models; "
        "cases as C02: the boundary set with the real BLOCK_SIZE and the patched_constant small scope (exhaustive in the thorough "
        "tier), sizes 0 included.  Creators: for every generated tree / piece length / option set the decoded metafiles of "
        "(TorrentAssembler v2, TorrentFileV2), (TorrentAssembler hybrid, TorrentFileHybrid) and, on a third of the trees, "
        "(`create --meta-version 2|3`, class-based creator) must have identical info dictionaries and piece layers; so must every "
        "variant written for the same state of the payload: align=True / --align / `align = true` in a configuration file (an "
        "option of v1 metafiles that every creator accepts), the public assemble() called again on the same object before write(), "
        "and assemble() called again after the payload changed (against a fresh class-based create of the changed payload).  "
        "A case is non-trivial when it is distinct and hits at least one boundary class.")
RULE += ("  Unit correspondence of Model/Creators.v (the creator-level theorems rest on it): TorrentFileV2, TorrentAssembler "
         "(meta version 2), TorrentFileHybrid and TorrentAssembler (meta version 3), all four on every tree so that both sides "
         "of each agreement theorem meet the same input, write a metafile for "
         "generated content trees (single file / flat / nested to depth 3 / a directory next to a sibling whose name sorts between "
         "it and its children / identical files / >= 2 multi-piece files / empty directories / names differing only in case / "
         "non-ASCII names; sizes from {0,1,B+-1,B,pl+-1,pl,2pl+-1,...}), an option subset, one of 25 spellings of the path, a "
         "patched "
         "clock and the enumeration order of every directory fixed by a runner-side patch of os.listdir/os.scandir and handed to "
         "the model as the order of its entry lists; the extracted creator composed with Model/Bencode.v encode predicts the BYTES "
         "of the written file -- compared byte for byte.")
RULE += V.RULE_SCALE
TRUSTED_BASE = V.TRUSTED_BASE + [
    "hand-written models Model/Creators.v (the _traverse / assemble methods of TorrentFileV2, TorrentFileHybrid and "
    "TorrentAssembler, MetaFile.__init__, sort_meta), Model/Bencode.v (pyben's encoder) and Spec/PathSem.v (name and path "
    "components from the path string) tied to torrent.py by differential execution: extracted OCaml vs the BYTES the creator "
    "writes, under a controlled enumeration order (runner-side patch of os.listdir/os.scandir; Path.iterdir of CPython 3.12 calls "
    "os.listdir), a patched clock (torrentfile.torrent.datetime) and, for cases marked patched_constant, a patched "
    "torrentfile.hasher.BLOCK_SIZE",
]
ASSUMPTIONS = [a for a in V.ASSUMPTIONS if not a.startswith("creator-level statements")] + [
    "creator-level theorems (Props file, from Proofs/CreatorsProofs*.v) are about Model/Creators.v, which the unit correspondence "
    "ties to torrent.py byte for byte; the same statements are also checked end to end against the reference oracle",
    "file names are valid UTF-8 without '/', distinct per directory (wf_node); the payload contains at least one file",
]

UNIT_N = (72, 480)          # content trees of the creators unit correspondence (quick, thorough)


def run(ctx, model_ok):
    V.record_ast(ctx)
    V.small_functions(ctx, model_ok)
    V.unit(ctx, "C10", model_ok)
    V.e2e(ctx, "C10")
    if ctx.tier == "thorough":
        ctx.exhaustive = True
    V.require_classes(ctx, V.REQUIRED_V2 + V.REQUIRED_CREATORS)
    V.require_classes(ctx, V.REQUIRED_SCALE, minimum=1)      # the payloads at scale (piece lengths 2 .. 32 MiB) were reached
    # the creators unit correspondence counts its own boundary classes (after the end-to-end requirement above)
    quick = ctx.tier == "quick"
    cc.unit_for(ctx, model_ok, CREATOR_KINDS, n=UNIT_N[0] if quick else UNIT_N[1], budget=90000 if quick else 300000,
                required=cc.REQUIRED_CLASSES)


def replay(ctx, data):
    return V.replay_case(ctx, data, "C10")     # failures, disagreements, broken obligations and pinned reproducers alike
