"""C10 -- all creators and all hashers agree on the same payload."""
from props import v2_common as V

GEN_FILES = []
EXTRA_TARGETS = ["Extract/ExtractV2.vo"]
AREAS = ["v2"]
RULE = ("hashers: HasherV2, HasherHybrid (padding on/off) and FileHasher (hybrid x padding, iterated to exhaustion) are run on the "
        "same file and compared with each other (root, piece layer, yielded layer hashes, v1 pieces, padding description; no v1 "
        "side without the hybrid flag) and, field by field including the iterator's end flag, with their extracted Coq models; "
        "cases as C02: the boundary set with the real BLOCK_SIZE and the patched_constant small scope (exhaustive in the thorough "
        "tier), sizes 0 included.  Creators: for every generated tree / piece length / option set the decoded metafiles of "
        "(TorrentAssembler v2, TorrentFileV2), (TorrentAssembler hybrid, TorrentFileHybrid) and, on a third of the trees, "
        "(`create --meta-version 2|3`, class-based creator) must have identical info dictionaries and piece layers.  "
        "A case is non-trivial when it is distinct and hits at least one boundary class.")
TRUSTED_BASE = V.TRUSTED_BASE
ASSUMPTIONS = V.ASSUMPTIONS


def run(ctx, model_ok):
    V.record_ast(ctx)
    V.small_functions(ctx, model_ok)
    V.unit(ctx, "C10", model_ok)
    V.e2e(ctx, "C10")
    if ctx.tier == "thorough":
        ctx.exhaustive = True
    V.require_classes(ctx, V.REQUIRED_V2 + V.REQUIRED_CREATORS)


def replay(ctx, data):
    return V.replay_case(ctx, data, "C10")
