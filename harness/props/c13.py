"""C13 -- Rebuild restores the complete torrent when intact copies are available."""
import os
import json
import queue
import random
import shutil
import itertools
from concurrent.futures import ThreadPoolExecutor

import core
import trees
from props import rebuild_common as rc

GEN_FILES = []
EXTRA_TARGETS = ["Extract/ExtractRebuild.vo", "Extract/ExtractRebuildRun.vo"]
AREAS = ["rebuild", "rebuildrun"]
RULE = ("model tie: (1) Metadata(metafile)._map_pieces() -> per piece the (full, start, stop) list vs the extracted Coq map_pieces on the "
        "same (piece length, lengths, recorded piece count), metafiles written by the reference encoder: small scope 1..5 files, sizes 0..7, "
        "piece length 1..4 (exhaustive in the thorough tier, sampled in quick), recorded piece counts that are off by one or two, real-"
        "granularity layouts from the boundary size set; (2) Metadata._match_v1 with the real _index_contents and find_matches (copypath "
        "recorded) vs the extracted match_v1: per piece skipped/matched/failed and the exact sequence of copypath calls, on generated "
        "candidate sets (intact, wholly wrong, one byte off, other size, absent; damaged digests; files sharing a name); (3) "
        "Metadata._check_parts vs safe_comp; (4) Metadata(metafile) -- name, meta_version, piece_length, pieces, is_file and per entry "
        "path / full (pathlib parts) / filename / length / root, or refusal with any exception -- vs the extracted metadata_of_bytes (the "
        "model of pyben.loads + Metadata.extract/_parse_tree/__init__) on the same bytes: metafiles of every creator and of the reference "
        "encoder, C19's hostile metafiles, every hostile element at every key position of a file tree with sibling directories three "
        "levels deep, single-file forms and their neighbours, odd shapes, random changes of shape; (5) Metadata._match_v2 with the real "
        "_index_contents and HasherV2 (copypath and the callback recorded) vs the extracted extract + match_v2: count and exact copypath "
        "sequence, candidates intact / every byte different / one byte off / longer (genuine bytes then junk) / shorter / empty / absent, "
        "files sharing a name, empty files, metafiles whose recorded root or length was changed.  End to end: generated payloads (random trees and structured layouts with files ending on "
        "piece boundaries, empty files first/middle/last, several files per directory, single files), metafiles from the v1/v2/hybrid "
        "creators and the reference encoder, an intact copy of EVERY file scattered under its own name over 1-3 search roots at depth "
        "0-3 next to unrelated files and decoys (other size; longer with the genuine bytes first, enumerated before the intact copy; same size with every byte different, "
        "placed before and after the intact copy in the enumeration order, which the runner controls by patching os.listdir to sorted / reverse sorted), batches of 2-3 "
        "metafiles sharing a destination, destinations absolute / relative / '.', Assembler API / CLI in process / unpatched CLI in a "
        "fresh interpreter; the destination is judged by the reference: every non-empty file present, of the recorded length and byte-identical, reference "
        "verifier 100% (hybrids in both views; a single file torrent must be a regular file dest/name), every counted file present, "
        "nothing else in the destination, no mutation outside it.  Separate small streams with a partially matching decoy enumerated "
        "first (known finding D27) and with aligned v1 metafiles (D28).  Aimed streams: the same file name in two directories with whole-piece "
        "files; file, directory and torrent names that CONTAIN consecutive dots ('wait....bin', 'disc..2', '..x': ordinary names, also in "
        "every random payload pool), as single metafiles and in batches / metafile directories; v1 with a file of exactly k pieces followed "
        "by a file whose wholly different same-size decoy is enumerated before the intact copy; directory torrents (v2, hybrid, v1; every "
        "creator and the reference encoder; single metafiles and batches; also a share of every random payload pool) with a top-level "
        "FILE named like the torrent beside other files and directories (it belongs at dest/name/name; only the one-leaf tree is the "
        "single-file form), with a SUB-DIRECTORY named like the torrent, and with the name once more one level down; RESUME sequences (v1, v2, hybrid; Assembler "
        "API, CLI in process, and `python -m torrentfile rebuild` in separate processes): rebuild into the empty destination (judged), "
        "then 1-2 rebuilt files are cut to 0 / 1 / half / length-1 bytes as an interrupted copy leaves them, then the same rebuild again, and "
        "the destination is judged again by the same reference (failure kinds prefixed `resume:`).  TEXT versus BYTES: plain v1 "
        "metafiles (creator and reference encoder, listed order sorted or shuffled) of 1-4 pieces whose payload is tuned -- the last 8 "
        "bytes of every piece -- so that the recorded `pieces` string is valid UTF-8 WITH multi-byte characters (pyben hands such a "
        "string over as text, which is shorter than the bytes): single files of one / two / three pieces, a file ending on a piece "
        "boundary, pieces straddling files, one piece holding every file; intact copies and decoys as everywhere, API / CLI / separate "
        "process; everything must be restored.  A decomposed (NFD) file name is in the name pool of the structured layouts.  Payloads at SCALE (end to end only, "
        "same scatterings, decoys, routes and reference judgement): piece lengths 256 KiB / 512 KiB / 1 / 2 / 4 MiB, one shape each at 8 and 16 MiB (thorough: more "
        "through harness/scale.py) and candidates of 1 .. 9 MiB aimed at code that reads, maps or copies through 1 / 4 / 8 MiB windows: a "
        "candidate just above 1 MiB whose tail shares a piece with whole small files, candidates of exactly k MiB and one byte either "
        "side, a small file before the big one, candidates above 1 MiB shorter than a 2 / 4 MiB piece and of a piece and a half, two "
        "big candidates inside one piece, single files; each shape through a v1 metafile (creator, reference encoder) AND a v2 / hybrid "
        "metafile (TorrentFileV2, TorrentFileHybrid, TorrentAssembler, reference encoder -- roots not computed by the tool's own "
        "hasher), random shapes k MiB + r, batches with small torrents.  PATH ARGUMENTS (profile 'paths'; payloads, decoys and judgement as "
        "everywhere): two or three SIBLING search directories one of whose names is a string prefix of another ('parts' / 'parts2' / "
        "'parts2.old', 'disk1' / 'disk10', 'seed' / 'seed.old', given in any order), mostly with every intact copy in a directory whose name "
        "extends a sibling's; the destination spelled './../../x/y' and '../../x/y' from inside a search directory, './../x/y' from the parent "
        "of the search directories, './.hidden', './../.hidden' from the folder of the metafiles, './x/y/', 'x/./y', './/x/y', absolute with "
        "a '..' segment or a trailing separator, a sibling of the search directories whose name extends a search directory's name; API and "
        "command line: the directory the shell would resolve must hold the complete torrent.  IN PLACE (profile 'inplace'): the destination "
        "EQUALS or CONTAINS a search directory ('-c . -d .' from inside it, '../dest', absolute, trailing separators; the search directory "
        "being the destination, the payload directory dest/name, or the destination plus a second directory) and some files are already "
        "intact at their final place -- v1 / v2 / hybrid; the largest file in place and a small neighbour sharing its only / its last piece "
        "elsewhere in the search tree, the small file in place and the big one elsewhere, three files in two directories: every file must "
        "be restored (files that lay in the destination before the rebuild are not counted as unexpected).  A case is non-trivial when it is distinct and copies at least "
        "one non-empty file.")
TRUSTED_BASE = rc.TRUSTED_BASE
ASSUMPTIONS = ["no symbolic links or special files in search directories or destination",
               "the destination starts empty (pre-populated destinations are C14's subject)",
               "zero-length files carry no hash: their absence from the destination is recorded as an observation, not a violation",
               "v2 route: the candidate's root is the HasherV2 model of Model/HasherV2.v (C02); piece length = 16 KiB * 2^k in the theorems",
               "which candidate is copied is proved under `candidates_clean` only (C13_find_matches_copies_intact_partial; D27)"]

WORKERS = 4


def classify(failure):
    k = failure.get("kind", "")
    if k.endswith(":d27-shaped"):
        return "D27"
    if k.endswith(":d28-shaped"):
        return "D28"
    return None


def assess(case, reply):
    """the verdict of the reference on the destination as it is NOW: (list of (kind, expected, observed), observations)"""
    dest = case["dest"]
    out = []
    if reply.get("error"):
        out.append(("rebuild-raised", "rebuild completes", reply["error"]))
    problems, obs = rc.judge_destination(case, dest)
    by_name = {t["name"]: t for t in case["torrents"]}
    for pr in problems:
        if pr["kind"] == "incomplete":
            t = by_name[pr["torrent"]]
            if all(rc.d27_shaped(case, t, e, dest) for e, _ in pr["files"]):
                kind = "incomplete:d27-shaped"
            elif all(why == "missing" and rc.d28_shaped(t, e) for e, why in pr["files"]):
                kind = "incomplete:d28-shaped"
            else:
                kind = "incomplete"
            out.append((kind, "every non-empty file of the torrent present in the destination and byte-identical",
                        {"torrent": pr["torrent"], "files": pr["detail"], "counter": reply.get("counter")}))
        elif pr["kind"] == "destination-file-length-differs":
            out.append((pr["kind"], "every file in the destination has exactly the length the metafile records",
                        {"torrent": pr["torrent"], "detail": pr["detail"], "counter": reply.get("counter")}))
        else:
            out.append((pr["kind"], "the rebuilt torrent verifies 100% with the reference verifier",
                        {"torrent": pr["torrent"], "detail": pr["detail"]}))
    bad = rc.check_records(case, reply, dest)
    if bad:
        out.append(("counted-file-absent", "every counted file exists in the destination", bad[:6]))
    expected = {os.path.join(*e["rel"]) for t in case["torrents"] for e in t["layout"] if e["rel"]}
    # (profile 'inplace': the destination is a search directory; what lay there before the rebuild is not the rebuild's doing)
    extra = [k for k, v in rc.snapshot(dest).items() if v[0] != "d" and k not in expected and k not in case.get("preexisting", ())]
    if extra:
        out.append(("unexpected-file", "only files of the torrents in the destination", extra[:6]))
    ev = rc.outside_events(reply, dest)
    if ev:
        out.append(("mutation-outside-destination", "every filesystem mutation under the destination", ev[:6]))
    return out, obs


def cut_files(case):
    """what an interrupted copy leaves: 1-2 rebuilt files of the destination cut to 0 / 1 / half / length-1 bytes"""
    rng = random.Random(f"resume:{case['seed']}")
    ents = {}
    for t in case["torrents"]:
        for e in t["layout"]:
            if e["rel"] and e["length"] > 0 and os.path.isfile(os.path.join(case["dest"], *e["rel"])):
                ents[e["rel"]] = e
    cuts = []
    for rel in rng.sample(sorted(ents), min(len(ents), rng.choice([1, 2, 2]))):
        n = ents[rel]["length"]
        how, m = rng.choice([(h, m) for h, m in (("0 bytes", 0), ("1 byte", 1), ("half", n // 2), ("length-1", n - 1)) if m < n])
        os.truncate(os.path.join(case["dest"], *rel), m)
        cuts.append({"file": "/".join(rel), "recorded_length": n, "cut_to": m, "how": how})
    return cuts


def evaluate(ctx, case, res):
    inp = rc.case_summary(case)
    reply = res["reply"]
    if reply.get("runner_died") or (res.get("reply2") or {}).get("runner_died"):
        ctx.broken.append(f"no answer from the rebuild ({reply.get('error')}; rc {reply.get('rc')}) on case seed {case['seed']}")
        return
    if case["profile"] == "resume":
        # run 1 into the empty destination was judged before the cut; now the destination after run 2
        verdict, obs = res["verdict1"]
        for kind, expected, observed in verdict:
            ctx.fail(kind, inp, expected, observed)
        inp2 = dict(inp, sequence=["rebuild into the empty destination", {"cut (as an interrupted copy leaves them)": res["cuts"]},
                                   "rebuild again with the same intact sources"])
        verdict2, _ = assess(case, res["reply2"])
        for kind, expected, observed in verdict2:
            ctx.fail("resume:" + kind, inp2, expected + " after the second rebuild", observed)
        for c in res["cuts"]:
            case["classes"].add("resume: rebuilt file cut to " + c["how"])
        case["classes"].add(f"resume: {len(res['cuts'])} file{'s' if len(res['cuts']) != 1 else ''} cut")
    else:
        verdict, obs = assess(case, reply)
        for kind, expected, observed in verdict:
            ctx.fail(kind, inp, expected, observed)
    for o in obs:
        ctx.extra["observations"][o] = ctx.extra["observations"].get(o, 0) + 1
    copied_something = any(e["rel"] and e["length"] for t in case["torrents"] for e in t["layout"])
    ctx.case(key=("e2e", case["profile"], case["seed"]), classes=sorted(case["classes"]), nontrivial=copied_something,
             sample=inp if case.get("index") == 3 else None)


GENERATOR_PROFILE = {"resume": "c13"}


def gen(seed, profile, workdir, force_mode=None):
    case = rc.gen_case(seed, GENERATOR_PROFILE.get(profile, profile), workdir, force_mode=force_mode)
    case["profile"] = profile
    return case


def run_once(case, runners, home):
    if case["mode"] == "cli-proc":
        return rc.run_cli_process(rc.job_of(case), home)
    r = runners.get()
    try:
        return r.run(rc.job_of(case))
    finally:
        runners.put(r)


def run_case(case, runners, home):
    res = {"reply": run_once(case, runners, home)}
    if case["profile"] == "resume" and not res["reply"].get("runner_died"):
        res["verdict1"] = assess(case, res["reply"])
        res["cuts"] = cut_files(case)
        res["reply2"] = run_once(case, runners, home)
    return res


def e2e(ctx):
    quick = ctx.tier == "quick"
    plan = [("c13", None)] * (64 if quick else 1100) + [("d27", None)] * (8 if quick else 80) + [("d28", None)] * (6 if quick else 60) + \
        [("samename", None)] * (4 if quick else 40) + [("resume", None)] * (14 if quick else 200) + \
        [("dotted", None)] * (8 if quick else 80) + [("boundary", None)] * (6 if quick else 80) + \
        [("namesake", None)] * (10 if quick else 120) + [("utf8pieces", None)] * (6 if quick else 48) + \
        [("paths", None)] * (16 if quick else 200) + [("inplace", None)] * (12 if quick else 150)
    plan = [(p, "cli-proc" if (p == "utf8pieces" and i % 6 == 1) or (p == "c13" and i % (21 if quick else 40) == 5) or (p == "resume" and i % (5 if quick else 10) == 2) else None)
            for i, (p, _) in enumerate(plan)]
    # payloads at SCALE (rebuild_common.scale_plan): every aimed shape through a v1 and through a v2 / hybrid metafile, random
    # shapes; the same generator of scatterings and decoys, the same reference judgement; now and then the unpatched command line
    plan += [(p, "cli-proc" if j % 9 == 4 else None) for j, p in enumerate(rc.scale_plan(not quick))]
    seeds = [ctx.rng.getrandbits(48) for _ in plan]
    ctx.extra.setdefault("observations", {})
    with core.Scratch("vc13e_") as tmp:
        os.environ["HOME"] = tmp
        runners = queue.Queue()
        rs = [rc.Runner(tmp) for _ in range(WORKERS)]
        for r in rs:
            runners.put(r)
        try:
            with ThreadPoolExecutor(max_workers=WORKERS) as ex:
                for c0 in range(0, len(plan), 24):
                    cases = []
                    for i in range(c0, min(c0 + 24, len(plan))):
                        try:
                            c = gen(seeds[i], plan[i][0], os.path.join(tmp, f"c{i}"), force_mode=plan[i][1])
                        except Exception as e:  # noqa
                            ctx.broken.append(f"case generation failed (seed {seeds[i]}, {plan[i][0]}): {type(e).__name__}: {e}")
                            continue
                        c["index"] = i
                        cases.append(c)
                    replies = list(ex.map(lambda c: run_case(c, runners, tmp), cases))
                    for c, rep in zip(cases, replies):
                        evaluate(ctx, c, rep)
                        shutil.rmtree(c["workdir"], ignore_errors=True)
        finally:
            for r in rs:
                r.close()
    for o, n in ctx.extra["observations"].items():
        ctx.notes.append(f"observation (not a violation): {o}: {n} times")


def run(ctx, model_ok):
    rc.map_pieces_tie(ctx, model_ok)
    rc.match_v1_tie(ctx, model_ok)
    comps = rc.HOSTILE + rc.EXTRA_COMPONENTS
    lists = [list(s) for k in (0, 1, 2, 3) for s in itertools.product(rc.HOSTILE[:5] + ["..x"], repeat=k)][:400]
    rc.check_parts_tie(ctx, model_ok, comps, lists)
    rc.parts_tie(ctx, model_ok)
    # the composition Metadata(metafile).rebuild(filemap, dest) on a real scratch filesystem vs Model/RebuildRun.v rebuild_of_metafile
    from props import rebuild_pipeline
    rebuild_pipeline.tie_rebuild_run(ctx, model_ok)
    rc.extract_tie(ctx, model_ok)
    rc.match_v2_tie(ctx, model_ok)
    e2e(ctx)


def replay(ctx, data):
    """regenerates the case from its seed, runs the rebuild (for a resume case: rebuild, cut, rebuild) and prints the reference verdict"""
    inp = data.get("input") or {}
    print(json.dumps({k: data.get(k) for k in ("kind", "expected", "observed")}, indent=1, ensure_ascii=False)[:3000])
    if "case_seed" not in inp:
        print(json.dumps(data, indent=1)[:3000])
        return 0
    with core.Scratch("vc13r_") as tmp:
        os.environ["HOME"] = tmp
        case = gen(inp["case_seed"], inp["profile"], os.path.join(tmp, "c"),
                   force_mode="cli-proc" if inp.get("mode") == "cli-proc" else None)
        q = queue.Queue()
        r = rc.Runner(tmp)
        q.put(r)
        try:
            res = run_case(case, q, tmp)
        finally:
            r.close()
        rep = res.get("reply2") or res["reply"]
        verdict = list(res.get("verdict1", ([], []))[0]) + [(("resume:" if "reply2" in res else "") + k, e, o)
                                                              for k, e, o in assess(case, rep)[0]]
        print("implementation:", rep.get("impl"), "counter:", rep.get("counter"), "error:", rep.get("error"))
        print(json.dumps(rc.case_summary(case), indent=1, ensure_ascii=False)[:4000])
        if "cuts" in res:
            print("cut between the two rebuilds:", json.dumps(res["cuts"], ensure_ascii=False))
        for kind, _expected, observed in verdict:
            print("PROBLEM", kind, json.dumps(core.jsonable(observed), ensure_ascii=False)[:600])
        print("verdict:", "property violated on this input" if verdict else "holds on this input")
        return 1 if verdict else 0
