"""C16 -- recheck percentage is the exact share of bytes in verifying pieces."""
from props import recheck_common as rc

GEN_FILES = rc.GEN_FILES + ["GenFormulas.v"]
EXTRA_TARGETS = rc.EXTRA_TARGETS
AREAS = rc.AREAS
RULE = ("model tie (whole traces): Checker.iter_hashes() over FeedChecker / HashChecker -- every (hash found, recorded hash, size) "
        "entry, the returned float, and for v1 the piece BYTES of FeedChecker.iter_pieces() -- vs the extracted Coq models "
        "(feed_trace, feed_pieces, hash_trace over the extracted FileHasher model, iter_hashes) on the same piece length, recorded "
        "lengths/hashes and per-file disk state.  Small scope (v1, reference-encoded metafiles): all layouts of 1..4 files with sizes "
        "0..5 and piece length 1..4 (plus the single-file form), intact and with EVERY single damage (each truncation length, removal "
        "of each file incl. empty ones, a flip at each offset) -- enumerated completely in the thorough tier, a deterministic sample "
        "(all layouts of <= 3 files over sizes {0,1,2,3,5}) plus random ones in quick.  Real granularity (pl 16384/32768, sizes from the "
        "boundary set <= 5 pieces, 1..4 files, 0..3 damages at boundary/random offsets): v1 / v1-align / reference v1 and v2-class / "
        "v2-asm / hybrid-class / hybrid-asm / reference v2 / reference hybrid.  The Coq Spec traces (spec_trace_v1/v2, extracted) are "
        "cross-checked against the Python reference verifier on the same cases.  End to end: generated trees (trees.gen_tree) x every "
        "metafile kind (6 creators + reference v1 / v2 without info.length / hybrid without trailing pad) x (intact + damage sets of "
        "1..4 flips/truncations/removals): returned float == (matched_ref / total_ref) * 100 in the same arithmetic and the (verdict, "
        "size) stream == the reference verifier's (v2: on the pieces whose missing described bytes are not all zero); a part through "
        "cli.execute and `python -m torrentfile recheck`.  A Checker object created on the intact tree and asked again after each damage "
        "set must answer like a fresh one.  Aimed classes: recorded digest valid UTF-8; all-zero final partial piece absent; an ABSENT "
        "zero-length file that is not the first file followed by damaged files; piece lengths 64/128 KiB with 3/5/6/7 blocks below one "
        "piece or in the last piece (intact and damaged; model tie and every v2-view kind end to end).  A case is non-trivial when it is "
        "distinct and hits at least one boundary class of DESIGN Appendix B (recheck row)."
        "  METAFILES OF ANOTHER ENCODER WITH BEP 47 ATTRIBUTES (kinds ref-v1-attr, ref-v1-attr-pad): reference-encoded v1 multi-file "
        "metafiles whose ORDINARY files carry attr x / h / xh (cycling, at least one non-empty file) -- plain, and with pad entries "
        "(attr p, .pad/<n>) between the files -- take part like every other kind in the small scope (a part of the multi-file "
        "layouts), the real-granularity model tie, the Checker.__init__ tie (fi_attr / fi_padding), the whole-run tie (recheck_model) "
        "and the end-to-end trees, plus aimed end-to-end layouts over these kinds and v1-align: only an attr containing p marks "
        "padding, every other entry is read from disk.  A DIRECTORY WHOSE ONLY FILE IS NAMED LIKE IT (data/data, and data/data/data): "
        "Checker.__init__ tie, whole-run tie and aimed end-to-end layouts over every v2-view kind (incl. reference v2, whose file tree "
        "then has the shape of a single-file metafile without info.length) + v1 / reference v1, through the payload root AND the "
        "parent directory." + rc.TEXT_RULE + rc.PATHS_RULE + rc.SCALE_RULE)
TRUSTED_BASE = rc.TRUSTED_BASE
ASSUMPTIONS = rc.ASSUMPTIONS


def run(ctx, model_ok):
    rc.run(ctx, "C16", model_ok)


def replay(ctx, data):
    return rc.replay(ctx, "C16", data)


classify = rc.classify_failure
