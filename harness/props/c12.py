"""C12 -- only power-of-two piece lengths >= 16 KiB are accepted or chosen."""
import io
import os
import contextlib
import unicodedata

import core

GEN_FILES = ["GenPieceLength.v", "GenConsts.v"]
RULE = ("correspondence: the Gallina functions generated from utils.py vs the real functions, evaluated by "
        "vm_compute on every integer of -64..70000 (one range obligation per 1000 integers), 2^k+d (k<=70,|d|<=2), "
        "3*2^k, 5*2^k, random 64/200-bit integers, strings of every lexical class (oracle results of "
        "str.isnumeric/int supplied per case), sizes 1000*2^e+d and random sizes < 2^50, next_power_2 on 1..5000 "
        "and 2^k+-1; end-to-end: the implementation vs the property's own rule on the same domain and through "
        "TorrentFile(piece_length=), `create --piece-length` and the config key piece-length; STRING values that are whitespace only, "
        "padded, signed, underscored, zero-led, hexadecimal, exponent / decimal-point or non-ASCII-digit spellings through the command "
        "line in every spelling argparse accepts (`--piece-length V`, `--piece-length=V`, the abbreviations `--piece V` / `--piece=V`, "
        "before and after the content path), the keyword and the config key: each run is refused with the piece-length error or "
        "records the power of two >= 16 KiB the value reads as -- never the automatic choice of a value that reads as nothing (the "
        "payload's automatic length differs from what the padded values read as); automatic choice in one process: "
        "every creator and the command line create, without a piece length, the same relative path string from two working "
        "directories (payload above the first threshold of the choice function, then ~1/16 of it; and the reverse) and the same "
        "absolute path after the payload grew / shrank across that threshold (sparse files) -- each recorded piece length must "
        "equal get_piece_length(total of THAT payload) and what a fresh interpreter records for it, be a power of two in range and "
        "be monotone in the total; the same judgement on payloads whose big sparse file lies in a SYMLINKED DIRECTORY of the payload or is "
        "itself a symlinked file (the creators follow links and record those files), also after the payload grew by a regular file: "
        "the lengths recorded in the metafile must add up to the payload as a reader following links sees it, and the recorded piece "
        "length must be the rule applied to that total. A case is non-trivial when it is distinct; ranges count once per range.")
TRUSTED_BASE = [
    "Coq 8.16.1 kernel (coqc, vm_compute); no axioms (every theorem: Closed under the global context)",
    "translator gen/pyfun2coq.py + gen/gen_piecelength.py (Python ast -> Gallina), checked on every run by the vm_compute correspondence",
    "a / b > c on non-negative ints translated to a > c*b (exact for b = 2^e <= 2^24; DESIGN.md C12)",
    "str.isnumeric and int(str) are oracles (Section variables); theorems hold for every behaviour of them",
]
ASSUMPTIONS = ["Python int semantics = Z; float true-division rounding argument for get_piece_length's threshold",
               "the CLI and the config file deliver the piece length as str (argparse/configparser not modelled here)"]


def spec_int(n):
    """the property's rule: ('ok', v) | ('either', v) | ('reject',)"""
    if n >= 16384 and n & (n - 1) == 0:
        return ("ok", n)
    if 14 <= n <= 25:
        return ("ok", 2 ** n)
    if 26 <= n <= 29:
        return ("either", 2 ** n)
    return ("reject",)


def denotes(s):
    """integer a string of Unicode decimal digits denotes, else None"""
    if not s:
        return None
    v = 0
    for ch in s:
        try:
            d = unicodedata.decimal(ch)
        except ValueError:
            return None
        v = v * 10 + d
    return v


def call(fn, *a):
    try:
        return ("ret", fn(*a))
    except BaseException as e:  # noqa
        return ("exc", type(e).__name__)


def int_domain(ctx):
    big = []
    for k in range(0, 71):
        for d in (-2, -1, 0, 1, 2):
            big.append(2 ** k + d)
        big.append(3 * 2 ** k)
        big.append(5 * 2 ** k)
    n = 40 if ctx.tier == "quick" else 600
    for _ in range(n):
        big.append(ctx.rng.getrandbits(64))
        big.append(ctx.rng.getrandbits(200))
        big.append(-ctx.rng.getrandbits(40))
        big.append(1 << ctx.rng.randrange(14, 120))
    return sorted(set(big))


STRINGS = ["", "0", "1", "13", "14", "16", "25", "26", "29", "30", "014", "0016", "16384", "16385", "32768",
           "65536", "65537", "1048576", "-16", "+16", " 16", "16 ", "1_6", "1e4", "16.0", "0x10", "abc", "²", "½",
           "١٦", "１６", "1６", "2²", "³²", "16\n", "١٦٣٨٤", "1" * 30, "٣٢٧٦٨", "Ⅷ", "十六", "৪", "16384 ",
           " ", "  ", "\t", "\n", "\r\n", " 16 ", "\t16", "016", "1e1", "٤", "١٥", "15 ", " 15", "\u00a016", "16\u2003"]


def check_int_against_spec(ctx, fn, n, route):
    r = call(fn, n)
    sp = spec_int(n)
    ok = True
    if sp[0] == "ok":
        ok = r == ("ret", sp[1])
    elif sp[0] == "either":
        ok = r == ("ret", sp[1]) or r == ("exc", "PieceLengthValueError")
    else:
        ok = r == ("exc", "PieceLengthValueError")
    if not ok:
        ctx.fail("piece-length-rule", {"route": route, "piece_length": n}, list(sp), list(r))
    return r


# ------------------------------------------------------------------------------------------------ automatic choice, in process
# One process creates several metafiles in a row WITHOUT a piece length.  The piece length recorded in each must be a function
# of THAT payload's total size: the value of the pure function get_piece_length (tied to the generated model above, in range and
# monotone by the theorems) on the total, which is also what a fresh interpreter records for the same payload -- whatever the
# process saw before under the same path string.  On top: power of two in 2^14..2^24, monotone in the total along the sequence.
AUTO_CREATORS = ["TorrentFile", "TorrentFileV2", "TorrentFileHybrid", "TorrentAssembler", "cli"]


def sequences(gpl):
    """name -> [[directory, spelling of the path, total size of the payload at that moment]]; the sizes straddle the first
       threshold of the implementation's own choice function (1000 x 16 KiB on the pinned tree)"""
    lo, hi = 0, 1 << 32                   # largest total that still gets the smallest piece length (the function is monotone)
    base = gpl(0)
    if gpl(hi) == base:
        edge = 1000 * 16384
    else:
        while hi - lo > 1:
            mid = (lo + hi) // 2
            lo, hi = (mid, hi) if gpl(mid) == base else (lo, mid)
        edge = lo
    edge = min(max(edge, 1 << 16), 1 << 26)
    big, small = edge + edge // 27, max(edge // 16, 4096)     # 17 MB and 1 MB for the threshold 1000 x 16 KiB
    return {
        "same relative path string from two working directories, big then small": [["A", "relative", big], ["B", "relative", small]],
        "same relative path string from two working directories, small then big": [["C", "relative", small], ["D", "relative", big]],
        "same absolute path, payload grown then shrunk across the first threshold": [["E", "absolute", edge], ["E", "absolute", edge + 1],
                                                                                  ["E", "absolute", edge]],
    }


def set_payload(d, name, total):
    """<d>/<name>/{f: 10 bytes, sparse.img: a hole}: `total` bytes altogether, nothing large is written"""
    os.makedirs(os.path.join(d, name), exist_ok=True)
    with open(os.path.join(d, name, "f"), "wb") as fd:
        fd.write(b"x" * 10)
    with open(os.path.join(d, name, "sparse.img"), "ab") as fd:
        fd.truncate(total - 10)


def fresh_auto(tmp, totals):
    """{total: piece length recorded by TorrentFile(path=...) without a piece length, each in a fresh interpreter}"""
    import subprocess
    import concurrent.futures
    import pyben
    code = ("import sys\nfrom torrentfile import torrent\n"
            "torrent.TorrentFile(path=sys.argv[1], outfile=sys.argv[2], progress=0).write()\n")

    def one(total):
        d = os.path.join(tmp, f"fresh{total}")
        set_payload(d, "payload", total)
        out = os.path.join(d, "o.torrent")
        p = subprocess.run([core.PY, "-c", code, "payload", out], cwd=d, env=core.impl_env({"HOME": tmp}), capture_output=True,
                           text=True, timeout=300)
        if p.returncode != 0 or not os.path.exists(out):
            return ("exc", (p.stderr or p.stdout)[-300:])
        return ("ret", pyben.load(out)["info"]["piece length"])
    with concurrent.futures.ThreadPoolExecutor(4) as ex:
        return dict(zip(totals, ex.map(one, totals)))


def run_sequence(tmp, creator, steps, tag):
    """the creates of one sequence by one creator, in this process: [('ret', piece length) | ('exc', name)] per step"""
    from torrentfile import torrent
    from torrentfile.cli import execute
    import pyben
    name = "payload" if creator == "TorrentFile" else "payload-" + creator      # one path string per creator and sequence
    base = os.path.join(tmp, "seq", tag, creator)
    cwd0 = os.getcwd()
    res = []
    for k, (d, spelling, total) in enumerate(steps):
        wd = os.path.join(base, d)
        set_payload(wd, name, total)
        path = name if spelling == "relative" else os.path.join(wd, name)
        out = os.path.join(wd, f"o{k}.torrent")
        sink = io.StringIO()
        try:
            os.chdir(wd)
            with contextlib.redirect_stdout(sink), contextlib.redirect_stderr(sink):
                if creator == "cli":
                    execute(["create", "-o", out, "--prog", "0", path])
                else:
                    kw = {"meta_version": "3"} if creator == "TorrentAssembler" else {}
                    getattr(torrent, creator)(path=path, outfile=out, progress=0, **kw).write()
            r = ("ret", pyben.load(out)["info"]["piece length"])
        except (Exception, SystemExit) as e:  # noqa
            r = ("exc", type(e).__name__)
        finally:
            os.chdir(cwd0)
        res.append(r)
    return res


def judge_sequence(steps, res, fresh, gpl):
    """[(kind, step index, expected, observed)] for the piece lengths one creator recorded along one sequence"""
    out = []
    for k, ((d, spelling, total), r) in enumerate(zip(steps, res)):
        if r[0] != "ret" or not isinstance(r[1], int) or r[1] & (r[1] - 1) or not 2 ** 14 <= r[1] <= 2 ** 24:
            out.append(("auto-piece-length-range", k, "a power of two in 2^14..2^24", list(r)))
            continue
        pure = call(gpl, total)
        if pure != ("ret", r[1]) or fresh.get(total) != ("ret", r[1]):
            out.append(("auto-piece-length-stale", k, {"get_piece_length(total of this payload)": list(pure),
                                                       "fresh interpreter on the same payload": list(fresh.get(total, ("?",)))}, r[1]))
    seen = sorted((steps[k][2], r[1], k) for k, r in enumerate(res) if r[0] == "ret" and isinstance(r[1], int))
    for (s1, p1, k1), (s2, p2, k2) in zip(seen, seen[1:]):
        if s2 > s1 and p2 < p1:
            out.append(("auto-piece-length-monotone", k2, f">= {p1} (recorded for {s1} bytes at step {k1})", p2))
    return out


def seq_input(creator, seq, steps, k):
    return {"route": "in-process sequence, no piece length given", "creator": creator, "sequence": seq, "failing_step": k,
            "steps": [list(st) for st in steps],
            "payload": "directory {f: 10 bytes, sparse.img: a hole of total - 10 bytes}"}


def auto_sequences(ctx, tmp):
    from torrentfile import utils
    seqs = sequences(utils.get_piece_length)
    totals = sorted({t for st in seqs.values() for _, _, t in st})
    fresh = fresh_auto(tmp, totals)
    for t in totals:
        if fresh[t][0] != "ret":
            ctx.broken.append(f"fresh-interpreter create of a {t}-byte payload failed: {fresh[t][1]}")
    if len({fresh[t] for t in totals}) < 2:
        ctx.notes.append("automatic piece length: the sequences do not cross a threshold of the implementation's choice function")
    for creator in AUTO_CREATORS:
        for seq, steps in seqs.items():
            res = run_sequence(tmp, creator, steps, "run")
            for k in range(len(res)):
                ctx.case(key=("auto-seq", creator, seq, k), classes=["auto in-process sequence", "auto creator " + creator],
                         sample=dict(seq_input(creator, seq, steps, k), recorded=[list(r) for r in res])
                         if creator == "cli" and k == 1 and "grown" in seq else None)
            for kind, k, exp, obs in judge_sequence(steps, res, fresh, utils.get_piece_length):
                ctx.fail(kind, seq_input(creator, seq, steps, k), exp, obs)


# ------------------------------------------------------------------------------------------------ automatic choice, symbolic links
# The creators follow symbolic links: a symlinked directory of the payload is traversed, hashed and its files are RECORDED in the
# metafile (so is a symlinked file, with the target's length).  The automatic piece length must then be the rule applied to the
# payload that the metafile describes -- the total of the lengths it records -- and be monotone when the payload grows.
LINK_SHAPES = {
    "plain-subdir": "{f: 10 bytes, data/sparse.img: a hole}",
    "dirlink": "{f: 10 bytes, data -> ../store-<name> (a symlinked directory holding sparse.img: a hole)}",
    "dirlink+extra": "{f: 10 bytes, data -> ../store-<name> (a symlinked directory holding sparse.img: a hole), extra.bin: a regular file}",
    "filelink": "{f: 10 bytes, sparse.img -> ../store-<name>/sparse.img (a symlinked file: a hole)}",
    "filelink+extra": "{f: 10 bytes, sparse.img -> ../store-<name>/sparse.img (a symlinked file: a hole), extra.bin: a regular file}",
}


def link_sequences(gpl):
    """name -> [[directory, spelling, total, shape]]: payloads just above the first threshold of the choice function whose big
       sparse file is reached through a symbolic link; then the same payload grown by a regular file"""
    big = next(st[0][2] for name, st in sequences(gpl).items() if name.endswith("big then small"))
    extra = 4096
    return {
        "payload with a symlinked directory, then the same payload plus a regular file":
            [["L", "absolute", big, "dirlink"], ["L", "absolute", big + extra, "dirlink+extra"]],
        "payload with a real directory, then (same relative path string, other working directory) a bigger one whose directory is "
        "a symlink": [["R", "relative", big, "plain-subdir"], ["S", "relative", big + extra, "dirlink+extra"]],
        "payload whose big file is a symlink, then the same payload plus a regular file":
            [["F", "relative", big, "filelink"], ["F", "relative", big + extra, "filelink+extra"]],
    }


def set_link_payload(d, name, total, shape):
    """<d>/<name> of the given shape (LINK_SHAPES) with `total` bytes altogether as a reader following links counts them"""
    root, store = os.path.join(d, name), os.path.join(d, "store-" + name)
    os.makedirs(root, exist_ok=True)
    with open(os.path.join(root, "f"), "wb") as fd:
        fd.write(b"x" * 10)
    extra = 4096 if shape.endswith("+extra") else 0
    if extra:
        with open(os.path.join(root, "extra.bin"), "wb") as fd:
            fd.write(b"e" * extra)
    hole = total - 10 - extra
    kind = shape.split("+")[0]
    holder = os.path.join(root, "data") if kind == "plain-subdir" else store
    os.makedirs(holder, exist_ok=True)
    with open(os.path.join(holder, "sparse.img"), "ab") as fd:
        fd.truncate(hole)
    if kind == "dirlink" and not os.path.lexists(os.path.join(root, "data")):
        os.symlink("../store-" + name, os.path.join(root, "data"), target_is_directory=True)
    if kind == "filelink" and not os.path.lexists(os.path.join(root, "sparse.img")):
        os.symlink("../store-" + name + "/sparse.img", os.path.join(root, "sparse.img"))


def recorded_total(info):
    """total of the file lengths a metafile records (padding entries of a files list are not payload)"""
    if "files" in info:
        return sum(f["length"] for f in info["files"] if "p" not in str(f.get("attr", "")))
    if "length" in info:
        return info["length"]

    def walk(tree):
        return sum(v["length"] if k == "" else walk(v) for k, v in tree.items())
    return walk(info["file tree"])


def run_link_sequence(tmp, creator, steps, tag):
    """as run_sequence; per step ('ret', piece length, recorded total) | ('exc', name)"""
    from torrentfile import torrent
    from torrentfile.cli import execute
    import pyben
    name = "linked" if creator == "TorrentFile" else "linked-" + creator
    base = os.path.join(tmp, "lseq", tag, creator)
    cwd0 = os.getcwd()
    res = []
    for k, (d, spelling, total, shape) in enumerate(steps):
        wd = os.path.join(base, d)
        set_link_payload(wd, name, total, shape)
        path = name if spelling == "relative" else os.path.join(wd, name)
        out = os.path.join(wd, f"o{k}.torrent")
        sink = io.StringIO()
        try:
            os.chdir(wd)
            with contextlib.redirect_stdout(sink), contextlib.redirect_stderr(sink):
                if creator == "cli":
                    execute(["create", "-o", out, "--prog", "0", path])
                else:
                    kw = {"meta_version": "3"} if creator == "TorrentAssembler" else {}
                    getattr(torrent, creator)(path=path, outfile=out, progress=0, **kw).write()
            info = pyben.load(out)["info"]
            r = ("ret", info["piece length"], recorded_total(info))
        except (Exception, SystemExit) as e:  # noqa
            r = ("exc", type(e).__name__)
        finally:
            os.chdir(cwd0)
        res.append(r)
    return res


def judge_link_sequence(steps, res, fresh, gpl):
    """[(kind, step, expected, observed)]: the recorded total is the payload a reader following links sees; the recorded piece
       length is the rule on the recorded total (= what a fresh interpreter records for a plain payload of that total); the
       three-field judgement of judge_sequence (range, value, monotone) applies to (total, piece length)"""
    out = []
    for k, ((d, spelling, total, shape), r) in enumerate(zip(steps, res)):
        if r[0] == "ret" and r[2] != total:
            out.append(("auto-piece-length-symlink-payload", k, f"lengths recorded in the metafile add up to {total} (links followed)", r[2]))
        elif r[0] == "ret" and isinstance(r[1], int) and call(gpl, r[2]) != ("ret", r[1]):
            out.append(("auto-piece-length-symlink-total", k,
                        {"get_piece_length(total of the lengths recorded in the metafile)": list(call(gpl, r[2])), "recorded total": r[2]},
                        r[1]))
    plain = judge_sequence([st[:3] for st in steps], [r[:2] for r in res], fresh, gpl)
    seen = {(kind, k) for kind, k, _, _ in out}
    for kind, k, exp, obs in plain:
        kind = {"auto-piece-length-stale": "auto-piece-length-symlink-total"}.get(kind, kind)
        if (kind, k) not in seen:
            out.append((kind, k, exp, obs))
    return out


def link_seq_input(creator, seq, steps, k):
    return {"route": "in-process sequence, no piece length given, symbolic links in the payload", "creator": creator, "sequence": seq,
            "failing_step": k, "link_steps": [list(st) for st in steps],
            "payload": {st[3]: "directory " + LINK_SHAPES[st[3]] + "; total = the bytes a reader following links sees" for st in steps}}


def link_auto_sequences(ctx, tmp):
    from torrentfile import utils
    seqs = link_sequences(utils.get_piece_length)
    totals = sorted({st[2] for steps in seqs.values() for st in steps})
    fresh = fresh_auto(os.path.join(tmp, "lfresh"), totals)
    for t in totals:
        if fresh[t][0] != "ret":
            ctx.broken.append(f"fresh-interpreter create of a {t}-byte payload failed: {fresh[t][1]}")
    for creator in AUTO_CREATORS:
        for seq, steps in seqs.items():
            res = run_link_sequence(tmp, creator, steps, "run")
            for k in range(len(res)):
                ctx.case(key=("auto-link-seq", creator, seq, k),
                         classes=["auto in-process sequence with symbolic links", "auto creator " + creator, "auto payload " + steps[k][3]],
                         sample=dict(link_seq_input(creator, seq, steps, k), recorded=[list(r) for r in res])
                         if creator == "cli" and k == 1 and "real directory" in seq else None)
            for kind, k, exp, obs in judge_link_sequence(steps, res, fresh, utils.get_piece_length):
                ctx.fail(kind, link_seq_input(creator, seq, steps, k), exp, obs)


# ------------------------------------------------------------------------------------------------ string spellings, end to end
# What a user can type: the value may be blank, padded, signed ... and the option may be spelled in every way argparse accepts.
E2E_STRINGS = [" ", "\t", "\n", "  ", " 16 ", "16 ", " 16", "\t15", "15\n", "+16", "1_6", "016", "0x10", "1e1", "16.0", "٤", "١٦",
               "１５", "16", "65536", "3", "abc", "\u00a016"]
CLI_SPELLINGS = {
    "--piece-length V": lambda v, rest, content: ["create", "--piece-length", v] + rest + [content],
    "--piece-length=V": lambda v, rest, content: ["create", "--piece-length=" + v] + rest + [content],
    "--piece V": lambda v, rest, content: ["create", "--piece", v] + rest + [content],
    "--piece=V": lambda v, rest, content: ["create"] + rest + ["--piece=" + v, content],
    "content --piece-length V": lambda v, rest, content: ["create", content] + rest + ["--piece-length", v],
    "content --piece-le=V": lambda v, rest, content: ["create", content, "--piece-le=" + v] + rest,
}


def readings(s):
    """the integers a generous reader could take the string for (int() with its padding / sign / underscore / any-script digits,
       a prefixed literal, a float that is whole); empty when the string reads as nothing (blank, words)"""
    out = set()
    for f in (int, lambda t: int(t, 0), lambda t: int(float(t)) if float(t) == int(float(t)) else None):
        try:
            v = f(s)
        except (ValueError, OverflowError):
            continue
        if v is not None:
            out.add(v)
    d = denotes(s.strip())
    if d is not None:
        out.add(d)
    return sorted(out)


def judge_string_e2e(s, r):
    """the property on a string value: refused with the piece-length error, or a metafile recording the power of two >= 16 KiB that
       the value reads as.  A plain ASCII decimal the rule accepts must be accepted.  -> (ok, expectation)"""
    plain = s.isascii() and s.isdigit()
    good = sorted({spec_int(v)[1] for v in readings(s) if spec_int(v)[0] in ("ok", "either")})
    exp = {"refused with PieceLengthValueError": not (plain and spec_int(int(s))[0] == "ok"), "or recorded piece length in": good}
    if r[0] == "ret":
        return r[1] in good, exp
    if plain and spec_int(int(s))[0] == "ok":
        return False, exp
    return r == ("exc", "PieceLengthValueError"), exp


def create_with(tmp, payload, route, v, spelling=None):
    """one create with the piece length `v` through a route -> ('ret', recorded piece length) | ('exc', name)"""
    from torrentfile import torrent
    from torrentfile.cli import execute
    import pyben
    out = os.path.join(tmp, "o.torrent")
    if os.path.exists(out):
        os.remove(out)
    sink = io.StringIO()
    try:
        with contextlib.redirect_stdout(sink), contextlib.redirect_stderr(sink):
            if route == "keyword-int":
                torrent.TorrentFile(path=payload, piece_length=v, outfile=out, progress=0).write()
            elif route == "keyword-str":
                torrent.TorrentAssembler(path=payload, piece_length=str(v), outfile=out, progress=0, meta_version="2").write()
            elif route == "cli":
                argv = CLI_SPELLINGS[spelling or "--piece-length V"](str(v), ["-o", out, "--prog", "0"], payload)
                execute(argv)
            else:
                ini = os.path.join(tmp, "torrentfile.ini")
                with open(ini, "w", encoding="utf-8") as fd:
                    fd.write(f"[config]\npiece-length = {v}\n")
                execute(["create", "--config", "--config-path", ini, "-o", out, "--prog", "0", payload])
        r = ("ret", pyben.load(out)["info"]["piece length"]) if os.path.exists(out) else ("exc", "no file written")
    except BaseException as e:  # noqa
        r = ("exc", type(e).__name__)
        if os.path.exists(out):
            r = ("exc", type(e).__name__ + " but a metafile was written")
    return r


def make_payload(tmp):
    payload = os.path.join(tmp, "payload")
    os.makedirs(payload, exist_ok=True)
    with open(os.path.join(payload, "a.bin"), "wb") as fd:
        fd.write(b"x" * 70000)
    with open(os.path.join(payload, "b.bin"), "wb") as fd:
        fd.write(b"y" * 5)
    return payload


def string_routes(ctx, tmp, payload):
    """E2E_STRINGS (+ a few random padded ones) through the keyword, every command-line spelling (rotating; all of them for the
       blank / padded values in the thorough tier) and the config key"""
    vals = list(E2E_STRINGS)
    pads = [" ", "\t", "\n", "  ", "\u00a0", "\r"]
    for _ in range(4 if ctx.tier == "quick" else 60):
        core_v = ctx.rng.choice(["", "", str(ctx.rng.randrange(14, 26)), str(1 << ctx.rng.randrange(14, 22)), str(ctx.rng.randrange(0, 14))])
        vals.append(ctx.rng.choice(pads) * ctx.rng.randrange(0, 3) + core_v + ctx.rng.choice(pads) * ctx.rng.randrange(1, 3))
    names = list(CLI_SPELLINGS)
    seen = set()
    for i, s in enumerate(vals):
        if s in seen or not s:
            continue            # the empty string means "not given" (DESIGN.md C12 reading)
        seen.add(s)
        blank = not s.strip()
        padded = s != s.strip()
        if ctx.tier == "quick" and not (blank or padded):
            spellings = [names[i % len(names)], names[(i + 3) % len(names)]]
        elif ctx.tier == "quick":
            spellings = [names[(i + k) % len(names)] for k in (0, 1, 2, 4)]
        else:
            spellings = names
        routes = [("keyword-str", None)] + [("cli", sp) for sp in spellings]
        if s.strip() == s and len(s.splitlines()) == 1:
            routes.append(("config", None))       # configparser strips the value itself: only values it delivers unchanged
        for route, sp in routes:
            r = create_with(tmp, payload, route, s, sp)
            ok, exp = judge_string_e2e(s, r)
            inp = {"route": route, "piece_length": s, "string_route": True}
            if sp:
                inp["cli_spelling"] = sp
            if not ok:
                ctx.fail("piece-length-e2e-string", inp, exp, list(r))
            cls = "blank" if blank else "padded" if padded else "plain-decimal" if s.isascii() and s.isdigit() else "other"
            ctx.case(key=("e2e-str", route, sp, s), classes=[f"e2e {route}", f"e2e string {cls}"] + ([f"e2e cli spelling {sp}"] if sp else []),
                     sample=dict(inp, recorded=list(r)) if s == " 16 " and sp == "--piece-length=V" else None)


def run(ctx, model_ok):
    core.use_repo_in_process()
    from torrentfile import utils
    norm = utils.normalize_piece_length
    gpl = utils.get_piece_length
    np2 = utils.next_power_2

    # ------------------------------------------------ implementation vs the property's rule
    lo, hi = -64, 70000
    rng_results = {}
    for n in range(lo, hi + 1):
        rng_results[n] = check_int_against_spec(ctx, norm, n, "library")
    for s in range(lo, hi + 1, 1000):
        ctx.case(key=("int-range", s), classes=["int range -64..70000"])
    ctx.evaluations += (hi - lo + 1) - len(range(lo, hi + 1, 1000))
    big = int_domain(ctx)
    big_results = {}
    for n in big:
        big_results[n] = check_int_against_spec(ctx, norm, n, "library")
        cls = "pow2" if n > 0 and n & (n - 1) == 0 else "non-pow2"
        ctx.case(key=("int", n), classes=[f"big {cls}", ">=2^53" if abs(n) >= 2 ** 53 else "<2^53"],
                 sample={"piece_length": n, "result": list(big_results[n])} if n in (16385, 3 * 2 ** 14) else None)
    strs = list(STRINGS)
    for _ in range(30 if ctx.tier == "quick" else 400):
        k = ctx.rng.choice([1, 2, 3, 5, 8])
        alphabet = ctx.rng.choice(["0123456789", "0123456789", "0123456789 _-+", "٠١٢٣٤٥٦٧٨٩", "²³¹½¼", "abcxyz019"])
        strs.append("".join(ctx.rng.choice(alphabet) for _ in range(k)))
    str_results = {}
    for s in sorted(set(strs)):
        r = call(norm, s)
        str_results[s] = r
        d = denotes(s)
        plain = s.isascii() and s.isdigit()
        ok = True
        if r[0] == "ret":
            # accepted: must denote an integer the rule accepts, with that result
            ok = d is not None and spec_int(d)[0] in ("ok", "either") and r[1] == spec_int(d)[1]
        else:
            ok = r[1] == "PieceLengthValueError"
            if plain and spec_int(int(s))[0] == "ok":
                ok = False      # a plainly written valid value must be accepted
        if not ok:
            ctx.fail("piece-length-rule-string", {"route": "library", "piece_length": s}, "rule of C12", list(r))
        ctx.case(key=("str", s), classes=["string plain-decimal" if plain else "string other"],
                 sample={"piece_length": s, "result": list(r)} if s in ("²", "16") else None)

    # automatic choice
    sizes = [0, 1, 16383, 16384]
    for e in range(10, 36):
        for d in (-1, 0, 1):
            sizes.append(1000 * 2 ** e + d)
            sizes.append(2 ** e + d)
    for _ in range(60 if ctx.tier == "quick" else 2000):
        sizes.append(ctx.rng.randrange(0, 2 ** ctx.rng.randrange(1, 51)))
    sizes = sorted(set(s for s in sizes if s >= 0))
    gpl_results = {}
    prev = None
    for s in sizes:
        r = call(gpl, s)
        gpl_results[s] = r
        ok = r[0] == "ret" and isinstance(r[1], int) and r[1] & (r[1] - 1) == 0 and 2 ** 14 <= r[1] <= 2 ** 24
        if not ok:
            ctx.fail("auto-piece-length-range", {"size": s}, "power of two in 2^14..2^24", list(r))
        if ok and prev is not None and r[1] < prev[1]:
            ctx.fail("auto-piece-length-monotone", {"size_small": prev[0], "size_large": s},
                     f">= {prev[1]}", r[1])
        if ok:
            prev = (s, r[1])
        ctx.case(key=("size", s), classes=["auto size"])
    np2_vals = list(range(1, 5001)) + [2 ** k + d for k in range(1, 64) for d in (-1, 0, 1)]
    np2_results = {v: call(np2, v) for v in sorted(set(np2_vals))}

    # ------------------------------------------------ generated model vs implementation (vm_compute)
    if model_ok:
        pre = ("From Coq Require Import ZArith String List. Import ListNotations.\n"
               "From TF Require Import Gen.GenPieceLength.\nOpen Scope Z_scope.\n"
               "Definition code_eqb (a b : Z * Z * string) : bool :=\n"
               "  let '(a1, a2, a3) := a in let '(b1, b2, b3) := b in\n"
               "  andb (andb (Z.eqb a1 b1) (Z.eqb a2 b2)) (String.eqb a3 b3).\n"
               "Fixpoint zrange (lo : Z) (n : nat) : list Z := match n with O => [] | S m => lo :: zrange (lo + 1) m end.\n"
               "Fixpoint assoc (k : Z) (l : list (Z * (Z * Z * string))) (d : Z * Z * string) :=\n"
               "  match l with [] => d | (k', v) :: r => if Z.eqb k k' then v else assoc k r d end.\n"
               "Inductive item :=\n"
               " | IRange (lo : Z) (n : nat) (exceptions : list (Z * (Z * Z * string)))\n"
               " | IInt (n : Z) (exp : Z * Z * string)\n"
               " | IStr (isnum : bool) (toint : option Z) (exp : Z * Z * string)\n"
               " | IGpl (size : Z) (exp : Z * Z * string)\n"
               " | INp2 (v : Z) (exp : Z * Z * string).\n"
               "Definition plve := (1, 0, \"PieceLengthValueError\"%string).\n"
               "Definition check (i : item) : bool := match i with\n"
               " | IRange lo n ex => forallb (fun k => code_eqb (result_code (normalize_piece_length_int k)) (assoc k ex plve)) (zrange lo n)\n"
               " | IInt n e => code_eqb (result_code (normalize_piece_length_int n)) e\n"
               " | IStr b t e => code_eqb (result_code (normalize_piece_length_str (fun _ => b) (fun _ => t) EmptyString)) e\n"
               " | IGpl s e => code_eqb (result_code (get_piece_length 16 s)) e\n"
               " | INp2 v e => code_eqb (result_code (next_power_2 (S (Z.to_nat (Z.log2_up v))) v)) e\n"
               " end.\n")

        def code(r):
            if r[0] == "ret":
                if r[1] is None:
                    return '(3, 0, ""%string)'
                return f'(0, {core.zlit(r[1])}, ""%string)'
            return f'(1, 0, "{r[1]}"%string)'
        items, meta = [], []
        for s in range(lo, hi + 1, 1000):
            n = min(1000, hi + 1 - s)
            ex = [(k, rng_results[k]) for k in range(s, s + n) if rng_results[k] != ("exc", "PieceLengthValueError")]
            items.append(f"IRange {core.zlit(s)} {n}%nat [" + "; ".join(f"({core.zlit(k)}, {code(r)})" for k, r in ex) + "]")
            meta.append(("int-range", s, n))
        for n, r in big_results.items():
            items.append(f"IInt {core.zlit(n)} {code(r)}")
            meta.append(("int", n, r))
        for s, r in str_results.items():
            isnum = "true" if s.isnumeric() else "false"
            try:
                ti = f"(Some {core.zlit(int(s))})"
            except ValueError:
                ti = "None"
            items.append(f"IStr {isnum} {ti} {code(r)}")
            meta.append(("str", s, r))
        for s, r in gpl_results.items():
            items.append(f"IGpl {core.zlit(s)} {code(r)}")
            meta.append(("size", s, r))
        for v, r in np2_results.items():
            items.append(f"INp2 {core.zlit(v)} {code(r)}")
            meta.append(("np2", v, r))
        bad, err = core.coq_eval_failing(pre, items, "check", shard=900)
        ctx.traces_validated += len(items)
        ctx.extra["correspondence_items"] = len(items)
        if err:
            ctx.broken.append("correspondence evaluation failed: " + err[-800:])
        for i in bad:
            ctx.disagree("generated piece-length model vs utils.py", list(meta[i][:2]), "differs", repr(meta[i][2]))

    # ------------------------------------------------ end to end through the three routes
    from torrentfile import torrent
    from torrentfile.cli import execute
    import pyben
    vals = [0, 1, 13, 14, 15, 20, 25, 26, 29, 30, 32, 8192, 16383, 16384, 16385, 16395, 32768, 49152, 65536, 65537,
            2 ** 20, 2 ** 20 + 1, 3 * 2 ** 15, 2 ** 24, 2 ** 27]
    for _ in range(6 if ctx.tier == "quick" else 80):
        vals.append(ctx.rng.choice([ctx.rng.randrange(14, 30), 1 << ctx.rng.randrange(10, 28),
                                    ctx.rng.randrange(16384, 200000)]))
    with core.Scratch("vc12_") as tmp:
        payload = make_payload(tmp)
        cwd = os.getcwd()
        os.chdir(tmp)
        os.environ["HOME"] = tmp
        try:
            for v in sorted(set(vals)):
                for route in ("keyword-int", "keyword-str", "cli", "config"):
                    if v == 0 and route == "keyword-int":
                        continue        # 0/None/"" as keyword mean "not given" (DESIGN.md C12 reading)
                    r = create_with(tmp, payload, route, v)
                    sp = spec_int(v)
                    if sp[0] == "ok":
                        ok = r == ("ret", sp[1])
                    elif sp[0] == "either":
                        ok = r in (("ret", sp[1]), ("exc", "PieceLengthValueError"))
                    else:
                        ok = r == ("exc", "PieceLengthValueError")
                    if not ok:
                        ctx.fail("piece-length-e2e", {"route": route, "piece_length": v}, list(sp), list(r))
                    ctx.case(key=("e2e", route, v), classes=[f"e2e {route}"],
                             sample={"route": route, "piece_length": v, "recorded": list(r)} if v == 16 and route == "cli" else None)
            string_routes(ctx, tmp, payload)
            # automatic choice through the library on sparse files
            sp = os.path.join(tmp, "sparse.bin")
            prev = None
            for size in sorted({0, 1, 16384 * 1000, 16384 * 1000 + 1, 2 ** 30, 2 ** 34 + 1, 2 ** 40}):
                with open(sp, "wb") as fd:
                    fd.truncate(size)
                r = call(utils.path_piece_length, sp)
                ok = r[0] == "ret" and r[1] & (r[1] - 1) == 0 and 2 ** 14 <= r[1] <= 2 ** 24 and (prev is None or r[1] >= prev)
                if not ok:
                    ctx.fail("auto-piece-length-e2e", {"sparse_file_size": size}, "pow2 in range, monotone", list(r))
                else:
                    prev = r[1]
                ctx.case(key=("sparse", size), classes=["auto sparse file"])
        finally:
            os.chdir(cwd)
        auto_sequences(ctx, tmp)
        link_auto_sequences(ctx, tmp)


def replay(ctx, data):
    core.use_repo_in_process()
    from torrentfile import utils
    inp = data.get("input", {})
    if isinstance(inp.get("link_steps"), list) and inp.get("creator") in AUTO_CREATORS:
        with core.Scratch("vc12r_") as tmp:
            os.environ["HOME"] = tmp
            steps, creator = [tuple(st) for st in inp["link_steps"]], inp["creator"]
            fresh = fresh_auto(tmp, sorted({st[2] for st in steps}))
            res = run_link_sequence(tmp, creator, steps, "replay")
            print(f"[C12 replay] {creator}, no piece length given, one process; {inp.get('sequence')}:")
            for (d, spelling, total, shape), r in zip(steps, res):
                print(f"   directory {d}, {spelling} path, payload {LINK_SHAPES[shape]} of {total} bytes (links followed): recorded "
                      f"(piece length, total of the recorded lengths) {r[1:] if r[0] == 'ret' else r}; get_piece_length({total}) = "
                      f"{call(utils.get_piece_length, total)}; fresh interpreter on a plain payload of that total {fresh.get(total)}")
            probs = judge_link_sequence(steps, res, fresh, utils.get_piece_length)
        for kind, k, exp, obs in probs:
            print(f"[C12 replay] VIOLATION {kind} at step {k}: expected {exp}, observed {obs}")
        print("[C12 replay] verdict:", "property VIOLATED on this input" if probs else "the property holds on this input")
        return 1 if probs else 0
    if isinstance(inp.get("steps"), list) and inp.get("creator") in AUTO_CREATORS:
        with core.Scratch("vc12r_") as tmp:
            os.environ["HOME"] = tmp
            steps, creator = [tuple(st) for st in inp["steps"]], inp["creator"]
            fresh = fresh_auto(tmp, sorted({t for _, _, t in steps}))
            res = run_sequence(tmp, creator, steps, "replay")
            print(f"[C12 replay] {creator}, no piece length given, one process; {inp.get('sequence')}:")
            for (d, spelling, total), r in zip(steps, res):
                print(f"   directory {d}, {spelling} path, payload of {total} bytes: recorded {r}; get_piece_length({total}) = "
                      f"{call(utils.get_piece_length, total)}; fresh interpreter {fresh.get(total)}")
            probs = judge_sequence(steps, res, fresh, utils.get_piece_length)
        for kind, k, exp, obs in probs:
            print(f"[C12 replay] VIOLATION {kind} at step {k}: expected {exp}, observed {obs}")
        print("[C12 replay] verdict:", "property VIOLATED on this input" if probs else "the property holds on this input")
        return 1 if probs else 0
    if inp.get("string_route") and inp.get("route") in ("keyword-str", "cli", "config"):
        with core.Scratch("vc12r_") as tmp:
            os.environ["HOME"] = tmp
            payload = make_payload(tmp)
            cwd = os.getcwd()
            os.chdir(tmp)
            try:
                r = create_with(tmp, payload, inp["route"], inp["piece_length"], inp.get("cli_spelling"))
            finally:
                os.chdir(cwd)
        ok, exp = judge_string_e2e(inp["piece_length"], r)
        print(f"[C12 replay] create with the piece length {inp['piece_length']!r} through {inp['route']} "
              f"{inp.get('cli_spelling') or ''}: {r}; the property allows: {exp}")
        print("[C12 replay] verdict:", "the property holds on this input" if ok else "property VIOLATED on this input")
        return 0 if ok else 1
    if "piece_length" in inp:
        r = call(utils.normalize_piece_length, inp["piece_length"])
        print("normalize_piece_length(%r) -> %r ; rule: %r" % (inp["piece_length"], r,
              spec_int(inp["piece_length"]) if isinstance(inp["piece_length"], int) else "string rule"))
    else:
        print(json_dump(data))
    return 0


def json_dump(d):
    import json
    return json.dumps(d, indent=1)[:3000]
