"""
Ties of two Coq artefacts of the recheck checks (C04 / C05 / C16) to what runs:

  * tie_pipeline:    Model/RecheckInit.v `recheck_model` -- the WHOLE of `Checker(metafile, path)` iterated to exhaustion as
                     one function of the metafile's bytes (decoded by the model of pyben) and of a file system given as a
                     finite table with file contents -- versus the real Checker on real scratch directories:
                     (checker.total, matched, consumed), an exception <-> None.
  * tie_ref_encoder: Spec/MetafileWF.v `ref_metafile` (the encoder the theorem C05_reference_metafiles is about) versus
                     harness/ref/oracle.py `ref_metafile` (the encoder the end-to-end searches judge by): equal decoded
                     values on generated content trees.

Driver: ocaml/areas/recheckinit.ml (coq/Extract/ExtractRecheckInit.v); requests `recheck`, `refmeta`.
"""
import os
import random
import shutil

import core
import trees
from ref import oracle
from props import recheck_common as rc
from props import creators_common as cc

EXTRA_TARGETS = ["Extract/ExtractRecheckInit.vo"]
AREAS = ["recheckinit"]
JOBS = 6                      # parallel driver processes
STATES = ["intact", "one file truncated", "one file removed", "one byte flipped"]
VIAS = ["root", "parent"]
WHAT_PIPELINE = "Model/RecheckInit.v recheck_model vs Checker(metafile, path) run to exhaustion (total, matched, consumed)"
WHAT_RATIO = "Model/Recheck.v iter_hashes arithmetic on recheck_model's (matched, consumed) vs Checker._result"
WHAT_REF = "Spec/MetafileWF.v ref_metafile vs harness/ref/oracle.py ref_metafile"


# ------------------------------------------------------------------------------------- tie_pipeline
def fs_table_with_contents(base):
    """the table of recheck_common.fs_table_of (every path under `base`, components relative to it, kind, os.listdir of a
       directory) + the content of every regular file"""
    items = []
    for dirpath, _, filenames in os.walk(base):
        rel = os.path.relpath(dirpath, base)
        comps = [] if rel == "." else rel.split(os.sep)
        items.append(f"{rc._hexlist(comps)}:d:{rc._hexlist(os.listdir(dirpath))}:")
        for f in filenames:
            items.append(f"{rc._hexlist(comps + [f])}:f:-:{oracle.read(os.path.join(dirpath, f)).hex()}")
    return ";".join(items) or "-"


def impl_pipeline(mf, path):
    """Checker(mf, path), then iter_hashes() to exhaustion, accumulating as Checker.iter_hashes does:
       (total, matched, consumed, _result) or an error string"""
    recheck = rc._recheck_mod()

    def go():
        chk = recheck.Checker(mf, path)
        matched = consumed = 0
        for chunk, piece, _, size in chk.iter_hashes():
            consumed += size
            if chunk == piece:
                matched += size
        return chk.total, matched, consumed, chk._result
    try:
        return trees.quiet(go)
    except Exception as e:  # noqa
        return f"{type(e).__name__}: {e}"


def _gen_payload(rng, i, pl):
    """payload i: every third one a single file; total <= ~200 KB (file contents travel on the wire)"""
    if i % 3 == 1:
        pool = [s for s in trees.boundary_sizes(pl) if 0 < s <= 5 * pl] + [7, 3 * pl + 5]
        return {(): rng.randbytes(rng.choice(pool))}
    budget = 8 if pl == 16384 else 3
    for _ in range(50):
        tree, _ = trees.gen_tree(rng, pl, max_files=5, single_prob=0.0, max_total=budget)
        if 0 < sum(len(v) for v in tree.values()) <= 200_000:
            return tree
    return {("a",): rng.randbytes(pl + 1), ("b", "c"): rng.randbytes(5), ("e",): b""}


def _damage(rng, sc, label):
    """(state aligned with sc.files, description) for a state label"""
    state = [d for _, d in sc.files]
    if label == "intact":
        return state, []
    cand = [j for j, (_, d) in enumerate(sc.files) if d] or [0]
    j = rng.choice(cand)
    data = sc.files[j][1]
    L = len(data)
    if label == "one file removed":
        state[j] = None
        return state, [["rm", j]]
    if label == "one file truncated":
        cuts = sorted({0, max(L - 1, 0), L // 2, (L // sc.pl) * sc.pl if L % sc.pl else max(L - sc.pl, 0),
                       max((L // sc.pl - 1) * sc.pl, 0), max(L - 5, 0)} - {L}) or [0]
        cut = rng.choice(cuts)
        state[j] = data[:cut]
        return state, [["trunc", j, cut]]
    off = rng.choice(rc.offsets_of_interest(L, sc.pl, rng)) if L else 0
    off = min(max(off, 0), max(L - 1, 0))
    if L:
        state[j] = data[:off] + bytes([data[off] ^ 0xFF]) + data[off + 1:]
    return state, [["flip", j, off]]


DUP_LABEL = "two entries with identical multi-piece content (independent copies: one pieces root, one piece layers entry)"


def _dup_tree(r, pl):
    """independent copies of the same multi-piece content first and last in the listing, a different file between them"""
    x = r.randbytes(r.choice([2 * pl + 9, 3 * pl, pl + 1]))
    return {("a",): x, ("b",): r.randbytes(r.choice([5, pl + 3])), ("c", "a"): bytes(bytearray(x))}


UTF8_V1_LABEL = "recorded v1 `pieces` string valid UTF-8 with a multi-byte character (two pieces over two files)"
UTF8_V2_LABEL = "recorded pieces root of a file not longer than a piece valid UTF-8 with a multi-byte character"


def _named_tree(shape):
    """the files of rc.NAME_SHAPES[shape] with contents of a few sizes around the piece length"""
    comps = rc.NAME_SHAPES[shape][1]
    return lambda r, pl: {c: r.randbytes(r.choice([pl + 9, 100, 7, 2 * pl + 1][:2 if len(comps) > 6 else 4])) for c in comps}


def _aimed_payloads(tier):
    """(class, payload name or None, tree maker, metafile kinds): the directory whose only file is named like it (and the
       nested variant) for every v2-view kind, multi-file payloads for the metafiles of another encoder whose ordinary
       files carry attr x / h / xh (plain and with pad entries), and a payload in which two entries have identical content
       (the damaged states hit one copy or the file between them)"""
    same = rc.V2_KINDS + ["v1", "ref-v1"]
    out = [
        (rc.SAME_NAME_LABEL, "data", lambda r, pl: {("data",): r.randbytes(pl + 9)}, same),
        (rc.SAME_NAME_NESTED_LABEL, "data", lambda r, pl: {("data", "data"): r.randbytes(2 * pl + 1)}, same),
        (rc.ATTR_LABEL, None, lambda r, pl: {("a.sh",): r.randbytes(pl + 9), ("b",): b"", (".hidden",): r.randbytes(100),
                                             ("d", "run"): r.randbytes(2 * pl)}, rc.ATTR_KINDS + ["v1-align"]),
    ]
    out.append((DUP_LABEL, None, _dup_tree, rc.V2_KINDS + ["v1", "ref-v1"]))
    # names that are not stable under Unicode normalisation, created on disk exactly so (the model takes names as bytes)
    out.append((rc.NAME_LABELS["nfd-file-and-directory"], "p", _named_tree("nfd-file-and-directory"), same))
    # recorded hash strings that are valid UTF-8 with a multi-byte character (the real pyben hands them over as str; the model of
    # the decoder keeps bytes): the whole v1 `pieces` string; the pieces root of a file not longer than a piece
    rec = rc.load_utf8_recipes()
    if rec["sha1-block"] and rec["sha1-block32"] and rec["sha1-short"]:
        out.append((UTF8_V1_LABEL, "p", lambda r, pl: rc.spec_tree(rc.split_spec(
            [rec["sha1-block" if pl == rc.B else "sha1-block32"][0], rec["sha1-short"][0]], [pl - 3], ["a", "b"])), ["v1", "ref-v1", "ref-v1-attr"]))
    if rec["sha256-short"]:
        out.append((UTF8_V2_LABEL, "p", lambda r, pl: {("a",): r.randbytes(pl + 9), ("m.bin",): rc.recipe_bytes(rec["sha256-short"][0]),
                                                       ("z",): r.randbytes(100)}, rc.V2_KINDS))
    if tier == "thorough":
        out += [(rc.NAME_LABELS[sh], rc.NAME_SHAPES[sh][0], _named_tree(sh), same)
                for sh in ("equivalent-names-side-by-side", "nfd-payload-directory", "glob-metacharacters", "glob-payload-name")]
        if rec["sha256-pair"] and rec["sha256-block"]:
            out.append((UTF8_V2_LABEL, "p", lambda r, pl: {("k",): rc.recipe_bytes(rec["sha256-block"][0]),
                                                           ("two",): b"".join(rc.recipe_bytes(x) for x in rec["sha256-pair"][0])}, rc.V2_KINDS))
        out += [
            (DUP_LABEL, None, _dup_tree, rc.V2_KINDS + ["v1-align", "ref-v1-attr"]),
            (rc.SAME_NAME_LABEL, "data", lambda r, pl: {("data",): r.randbytes(r.choice([1, pl, 3 * pl + 5]))}, same),
            (rc.ATTR_LABEL, None, lambda r, pl: {("x",): r.randbytes(pl), ("y",): r.randbytes(pl - 1), ("z",): r.randbytes(3)},
             rc.ATTR_KINDS),
        ]
    return out


def tie_pipeline(ctx, mode, model_ok):
    """
    every metafile kind x {intact, one file truncated / removed / one byte flipped (C05: intact only)} x content path in
    {payload root, parent directory}, multi-file and single-file payloads: the real Checker versus recheck_model.
    One (state, via) combination per kind and payload, rotating, so that all combinations appear.
    """
    nsc = {"quick": 5, "thorough": 68}[ctx.tier]
    states = ["intact"] if mode == "C05" else STATES
    jobs = []       # (description, (metafile hex, path field, table), impl)
    with core.Scratch("vrpl_") as tmp:
        os.environ["HOME"] = tmp
        aimed = _aimed_payloads(ctx.tier)
        for i in range(nsc + len(aimed)):
            rng = random.Random(ctx.rng.getrandbits(64))
            pl = [16384, 32768][i % 2] if i % 4 != 3 else rng.choice([16384, 32768])
            base = os.path.join(tmp, f"s{i}", "w")
            if i < nsc:
                sc = rc.Scenario(base, rng, pl=pl, tree=_gen_payload(rng, i, pl))
                aim, kinds = None, rc.KINDS
            else:
                aim, name, mktree, kinds = aimed[i - nsc]
                sc = rc.Scenario(base, rng, pl=pl, name=name, tree=mktree(rng, pl), kinds=kinds)
            for k in sc.errors:
                ctx.notes.append(f"pipeline: creating the {k} metafile raised {sc.errors[k]} (payload {i}); kind skipped")
            # group the kinds of this payload by state so that the table (with contents) is built once per state
            plan = {}
            for k, kind in enumerate(kinds):
                if kind not in sc.metas:
                    continue
                j = i * len(kinds) + k
                label = states[(i + k) % len(states)]
                via = VIAS[(j // len(states) + k) % 2]
                plan.setdefault(label, []).append((kind, via))
                if aim:
                    # the aimed payloads: the intact state of every kind through root AND parent as well
                    for v in VIAS:
                        if ("intact", v) != (label, via):
                            plan.setdefault("intact", []).append((kind, v))
            for label, combos in plan.items():
                state, dmg = _damage(rng, sc, label)
                sc.set_state(state)
                table = fs_table_with_contents(sc.base)
                for kind, via in combos:
                    mf = sc.metas[kind][0]
                    path = sc.root if via == "root" else sc.parent
                    comps = [sc.name] if via == "root" else []
                    impl = impl_pipeline(mf, path)
                    desc = sc.describe(kind, dmg, {"scope": "pipeline", "state": label, "content_path": via})
                    jobs.append((desc, (oracle.read(mf).hex(), rc._hexlist(comps), table), impl))
                    ctx.case(key=("pipeline", i, kind, label, via),
                             classes=["pipeline: metafile " + kind, "pipeline: state " + label, "pipeline: via " + via,
                                      "pipeline: " + ("single-file payload" if sc.single else "multi-file payload"),
                                      "pipeline: " + (aim or "generated payload"),
                                      "pipeline: " + ("Checker raised" if isinstance(impl, str) else "Checker ran to exhaustion")],
                             nontrivial=True, sample=desc if len(jobs) in (2, 11) else None)
                sc.restore()
            shutil.rmtree(os.path.join(tmp, f"s{i}"), ignore_errors=True)
    if not model_ok:
        return
    outs = cc.run_model("recheck", [j[1] for j in jobs], jobs=JOBS)
    if outs is None:
        ctx.broken.append("extracted model driver (recheckinit: recheck) failed to run")
        return
    for (desc, _, impl), o in zip(jobs, outs):
        if o.startswith("ERROR"):
            ctx.broken.append(f"recheckinit driver error on {desc}: {o[:100]}")
            continue
        ctx.traces_validated += 1
        if isinstance(impl, str):
            if o != "none":
                ctx.disagree(WHAT_PIPELINE + " (implementation raised)", desc, o, impl)
            continue
        total, matched, consumed, result = impl
        if o != f"{total}|{matched}|{consumed}":
            ctx.disagree(WHAT_PIPELINE, desc, o, f"{total}|{matched}|{consumed}")
            continue
        if rc.ratio(matched, consumed) != result:
            ctx.disagree(WHAT_RATIO, desc, f"{matched}/{consumed} -> {rc.ratio(matched, consumed)}", result)


# ---------------------------------------------------------------------------------- tie_ref_encoder
def _bname(s):
    return s.encode("utf-8")


def strip_empty_dirs(node):
    """the same tree without directories that hold no file (the oracle's flat file list cannot express them)"""
    if cc.is_file(node):
        return node
    es = []
    for name, c in node[1]:
        c = strip_empty_dirs(c)
        if cc.is_file(c) or c[1]:
            es.append((name, c))
    return cc.D(es)


def byte_sorted(node):
    """every directory enumerated in raw-byte order of the names (the order of BEP 52 / recheck_common.order_files)"""
    if cc.is_file(node):
        return node
    return cc.D(sorted(((n, byte_sorted(c)) for n, c in node[1]), key=lambda e: _bname(e[0])))


def hand_trees(pl):
    F, D = cc.F, cc.D
    return [
        ("single file, multi-piece", F(2 * pl + 5, "h1")),
        ("single file, exactly one piece", F(pl, "h2")),
        ("single file, shorter than a block", F(7, "h3")),
        ("flat, every file ends on a piece boundary", D([("a", F(pl, "h4")), ("b", F(2 * pl, "h5")), ("c", F(pl, "h6"))])),
        ("empty files first / middle / last", D([("0", F(0, "z")), ("a", F(pl + 1, "h7")), ("b", F(0, "z")), ("c", F(5, "h8")),
                                                 ("d", F(0, "z"))])),
        ("only empty files", D([("a", F(0, "z")), ("d", D([("b", F(0, "z"))]))])),
        ("nested three deep", D([("a", D([("b", D([("c", F(pl + cc.B_REAL + 7, "h9"))])), ("b.x", F(3, "h10"))])), ("a.txt", F(1, "h11"))])),
        ("identical multi-piece files (one layers entry)", D([("x", F(2 * pl + 1, "h12")), ("y", D([("x", F(2 * pl + 1, "h12"))]))])),
        ("last file ends on a boundary (no trailing pad either way)", D([("a", F(5, "h13")), ("b", F(pl, "h14"))])),
        ("one file in a directory", D([("only", F(pl - 1, "h15"))])),
        ("names in non-ASCII / below '/'", D([("é", F(3, "h16")), ("a", D([("k", F(pl + 1, "h17"))])), ("a.d", F(2, "h18")),
                                              ("日本", F(0, "z")), ("a-b", F(pl, "h19"))])),
        ("zero-filled multi-piece file", D([("z", F(3 * pl, "z")), ("a", F(1, "h20"))])),
    ]


def oracle_files(node):
    """the tree's files as the oracle takes them: [(components tuple of str, data)] in the tree's enumeration order"""
    return [(rel, cc.data_of(size, salt)) for rel, size, salt in cc.files_of(node)]


def tie_ref_encoder(ctx, mode, model_ok):
    """
    the Coq reference encoder on a content tree versus oracle.ref_metafile on the tree's flat file list, versions 1 / 2 / 3
    (+ trailing_pad for 3).  Trees enumerated in raw-byte order: both outputs must decode STRICTLY to equal values (hence
    equal bytes); a part of the trees also in a shuffled enumeration order (files handed to the oracle in that order):
    the Coq output read order-preservingly, then as a plain dictionary, must equal the oracle's strictly decoded value
    (the v1 files list keeps the order in both, the file tree is a dictionary).  Empty directories are removed first.
    """
    n = {"quick": 16, "thorough": 150}[ctx.tier]
    flavours = ["single", "flat", "nested", "order", "identical", "multi", "emptydir", "case"]
    cases = []      # (description, node, pl, name, label)
    for pl in ([16384] if ctx.tier == "quick" else [16384, 32768]):
        for label, node in hand_trees(pl):
            cases.append(("hand: " + label, node, pl))
    for i in range(n):
        rng = random.Random(ctx.rng.getrandbits(64))
        pl = rng.choice([16384, 32768])
        fl = flavours[i % len(flavours)]
        node = cc.gen_node(rng, pl, fl, rng.choice([3, 5, 7]) * pl)
        cases.append(("generated: " + fl, node, pl))
    jobs = []
    names = ["payload", "a b", "Z.d", "päy.bin", "x"]
    for i, (label, node0, pl) in enumerate(cases):
        rng = random.Random(ctx.rng.getrandbits(64))
        node0 = strip_empty_dirs(node0)
        if not cc.files_of(node0):
            continue
        name = names[i % len(names)]
        single = cc.is_file(node0)
        variants = [("raw-byte order", byte_sorted(node0))]
        shuffled = cc.permuted(node0, rng)
        if not single and shuffled != variants[0][1] and (i % 2 == 0 or label.startswith("hand")):
            variants.append(("shuffled enumeration order", shuffled))
        for order, node in variants:
            files = [((name,), cc.data_of(node[1], node[2]))] if single else oracle_files(node)
            for version, tp in ((1, False), (2, False), (3, False), (3, True)):
                if order != "raw-byte order" and (version, tp) == (3, True) and i % 3:
                    continue
                desc = {"scope": "ref-encoder", "tree": label, "files": cc.summary(node), "enumeration": order, "version": version,
                        "trailing_pad": tp, "piece_length": pl, "name": name}
                try:
                    ref = oracle.ref_metafile(name, files, pl, version, single=single, trailing_pad=tp)
                except Exception as e:  # noqa
                    ctx.broken.append(f"oracle.ref_metafile raised {type(e).__name__}: {e} on {desc}")
                    continue
                jobs.append((desc, (str(version), _bname(name).hex(), str(pl), cc.wire(node), "1" if tp else "0"), ref, order))
                big = sum(1 for _, d in files if len(d) > pl)
                ctx.case(key=("refenc", i, order, version, tp),
                         classes=["ref-encoder: version %d%s" % (version, " + trailing pad" if tp else ""),
                                  "ref-encoder: " + order, "ref-encoder: " + ("single file" if single else "multi-file"),
                                  "ref-encoder: " + ("nested" if any(len(c) > 1 for c, _ in files) else "flat"),
                                  "ref-encoder: %s file longer than a piece" % ("no" if big == 0 else "one" if big == 1 else ">= 2")]
                         + (["ref-encoder: empty file present"] if any(not d for _, d in files) else [])
                         + (["ref-encoder: " + label] if label.startswith("hand") else []),
                         nontrivial=True, sample=desc if len(jobs) == 3 else None)
    if not model_ok:
        return
    outs = cc.run_model("refmeta", [j[1] for j in jobs], jobs=JOBS)
    if outs is None:
        ctx.broken.append("extracted model driver (recheckinit: refmeta) failed to run")
        return
    for (desc, _, ref, order), o in zip(jobs, outs):
        if o.startswith("ERROR"):
            ctx.broken.append(f"recheckinit driver error on {desc}: {o[:100]}")
            continue
        ctx.traces_validated += 1
        raw = bytes.fromhex(o)
        try:
            want = oracle.bdecode_strict(ref)
        except Exception as e:  # noqa
            ctx.broken.append(f"oracle.ref_metafile wrote bytes its strict decoder rejects ({e}) on {desc}")
            continue
        try:
            got = oracle.bdecode_strict(raw) if order == "raw-byte order" else oracle.plain(oracle.bdecode_lenient(raw))
        except Exception as e:  # noqa
            ctx.disagree(WHAT_REF + " (the Coq encoder's bytes are not canonical bencode)", desc, f"{type(e).__name__}: {e}", "decodes strictly")
            continue
        if got != want or (order == "raw-byte order" and raw != ref):
            ctx.disagree(WHAT_REF, desc, _first_difference(got, want), "see the first difference (model side | oracle side)")


def _first_difference(a, b, where="top"):
    if isinstance(a, dict) and isinstance(b, dict):
        for k in sorted(set(a) | set(b)):
            if k not in a:
                return f"{where}: key {k!r} only in the oracle's value"
            if k not in b:
                return f"{where}: key {k!r} only in the Coq encoder's value"
            if a[k] != b[k]:
                return _first_difference(a[k], b[k], f"{where}[{k!r}]")
        return f"{where}: equal values, different bytes"
    if isinstance(a, list) and isinstance(b, list):
        if len(a) != len(b):
            return f"{where}: list lengths {len(a)} | {len(b)}"
        for i, (x, y) in enumerate(zip(a, b)):
            if x != y:
                return _first_difference(x, y, f"{where}[{i}]")
    sa = a.hex()[:80] if isinstance(a, bytes) else repr(a)[:80]
    sb = b.hex()[:80] if isinstance(b, bytes) else repr(b)[:80]
    return f"{where}: {sa} | {sb}"
