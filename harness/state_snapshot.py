"""
Dynamic validation of the state translator (gen/gen_state.py, C09): a structural snapshot of everything in the package that
lives as long as the process -- module-level objects, class attributes, function attributes, default-argument objects, the
caches of decorator objects, TORRENTFILE_* environment variables, the identity of sys.stdout / sys.stderr, the levels and
disabled flags of the root logger and the package's loggers (key `logging:level`) -- taken inside the
interpreter that runs a history.  `diff(before, after)` names what an operation changed; every changed entry must be
explained by a cell of coq/Gen/GenState.v (`covered`), otherwise the translator's cell list is incomplete for behaviour that
was actually observed.

The fingerprints are address-free and structural, so two snapshots are equal iff the observable state is.
ONE-SHOT objects are fingerprinted by how far they have been consumed, without advancing them: a generator by its state
(created / suspended / finished) and the fingerprint of its frame's locals (the underlying iterator `.0` included); any
other iterator by operator.length_hint and by what __reduce__ shows of it (the remaining items of list / tuple / dict /
range iterators, the underlying iterators and counters of map / filter / zip / enumerate / reversed / itertools
objects); an open file (a descriptor above 2) by closed flag and position.
"""
import io as _io
import os
import sys
import types
import operator
import warnings

PKG = "torrentfile"
_ATOMS = (str, bytes, int, float, bool, type(None), complex)


def fp(obj, depth=0, seen=None):
    """address-free structural fingerprint"""
    if seen is None:
        seen = set()
    if isinstance(obj, _ATOMS):
        return repr(obj) if not isinstance(obj, (bytes, str)) or len(obj) < 200 else f"{type(obj).__name__}[{len(obj)}]:{hash(obj)}"
    if depth > 6 or id(obj) in seen:
        return f"<{type(obj).__name__}...>"
    seen = seen | {id(obj)}
    if isinstance(obj, (list, tuple)):
        return type(obj).__name__ + "(" + ",".join(fp(x, depth + 1, seen) for x in obj) + ")"
    if isinstance(obj, (set, frozenset)):
        return "set(" + ",".join(sorted(fp(x, depth + 1, seen) for x in obj)) + ")"
    if isinstance(obj, dict):
        return "dict(" + ",".join(sorted(fp(k, depth + 1, seen) + ":" + fp(v, depth + 1, seen) for k, v in list(obj.items()))) + ")"
    if isinstance(obj, bytearray):
        return f"bytearray[{len(obj)}]:{hash(bytes(obj))}"
    if isinstance(obj, (types.FunctionType, types.BuiltinFunctionType, types.MethodType, type, types.ModuleType)):
        return f"<{getattr(obj, '__module__', '')}.{getattr(obj, '__qualname__', getattr(obj, '__name__', '?'))}>"
    if isinstance(obj, (types.GeneratorType, types.CoroutineType, types.AsyncGeneratorType)):
        return _fp_generator(obj, depth, seen)
    if isinstance(obj, _io.IOBase):
        return _fp_file(obj)
    if hasattr(type(obj), "__next__"):
        return _fp_iterator(obj, depth, seen)
    d = getattr(obj, "__dict__", None)
    name = f"{type(obj).__module__}.{type(obj).__qualname__}"
    if name.startswith(("logging.", "_io.", "io.", "threading.", "argparse.")):
        return f"<{name}>"            # declared benign by the C09 reading (logging, streams)
    if isinstance(d, dict):
        return name + fp(d, depth + 1, seen)
    slots = getattr(type(obj), "__slots__", None)
    if slots:
        return name + "(" + ",".join(f"{s}={fp(getattr(obj, s, None), depth + 1, seen)}" for s in slots) + ")"
    return f"<{name}>"


def _fp_generator(g, depth, seen):
    """state of a generator without running it: gi_frame is None once it has finished; a suspended one shows its locals"""
    frame = getattr(g, "gi_frame", None) or getattr(g, "cr_frame", None) or getattr(g, "ag_frame", None)
    name = getattr(g, "__qualname__", "?")
    if frame is None:
        return f"<generator {name}: finished>"
    started = frame.f_lasti >= 0 and getattr(g, "gi_suspended", True) or frame.f_lasti > 0
    try:
        loc = dict(frame.f_locals)
    except Exception:  # noqa
        loc = {}
    return f"<generator {name}: {'suspended' if started else 'created'} line {frame.f_lineno} locals " + \
        fp({str(k): v for k, v in loc.items()}, depth + 1, seen) + ">"


def _fp_iterator(it, depth, seen):
    """an iterator other than a generator: what is left of it, read without calling next()"""
    name = f"{type(it).__module__}.{type(it).__qualname__}"
    parts = []
    try:
        parts.append(f"hint={operator.length_hint(it, -1)}")
    except Exception:  # noqa
        pass
    try:
        with warnings.catch_warnings():
            warnings.simplefilter("ignore")
            red = it.__reduce__()
        if isinstance(red, tuple) and len(red) >= 2:
            parts.append("args=" + fp(red[1], depth + 1, seen))
            if len(red) > 2 and red[2] is not None:
                parts.append("state=" + fp(red[2], depth + 1, seen))
    except Exception:  # noqa
        pass
    return f"<iterator {name} " + " ".join(parts) + ">"


def _fp_file(f):
    name = f"{type(f).__module__}.{type(f).__qualname__}"
    try:
        if f.closed:
            return f"<{name} closed>"
        fd = f.fileno()
    except Exception:  # noqa  (StringIO / BytesIO have no descriptor: position and content decide)
        try:
            return f"<{name} pos={f.tell()} size={len(f.getvalue())}>"
        except Exception:  # noqa
            return f"<{name}>"
    if fd <= 2:
        return f"<{name}>"            # the standard streams: declared benign by the C09 reading
    try:
        pos = f.tell() if f.seekable() else "?"
    except Exception:  # noqa  (a text file in the middle of iteration refuses tell())
        try:
            pos = "raw:" + str(os.lseek(fd, 0, os.SEEK_CUR))
        except OSError:
            pos = "?"
    return f"<{name} open pos={pos}>"


def _function_state(prefix, fn, out):
    if vars(fn):
        out[f"funcattr:{prefix}"] = fp(vars(fn))
    dflt = tuple(x for x in (fn.__defaults__ or ()) if not isinstance(x, _ATOMS)) + \
        tuple(v for v in (fn.__kwdefaults__ or {}).values() if not isinstance(v, _ATOMS))
    if dflt:
        out[f"defaultarg:{prefix}"] = fp(dflt)
    for i, c in enumerate(fn.__closure__ or ()):
        try:
            v = c.cell_contents
        except ValueError:
            continue
        if not isinstance(v, _ATOMS + (types.FunctionType, type, types.ModuleType)):
            out[f"closure:{prefix}#{i}"] = fp(v)


def snapshot():
    out = {}
    for mname, mod in list(sys.modules.items()):
        if mod is None or not (mname == PKG or mname.startswith(PKG + ".")):
            continue
        short = mname[len(PKG) + 1:] or PKG
        for k, v in list(vars(mod).items()):
            if k.startswith("__") or isinstance(v, types.ModuleType):
                continue
            if isinstance(v, type):
                if not str(getattr(v, "__module__", "")).startswith(PKG) or v.__module__ != mname:
                    continue
                for ck, cv in list(vars(v).items()):
                    if ck.startswith("__"):
                        continue
                    f = cv.__func__ if isinstance(cv, (staticmethod, classmethod)) else cv
                    if isinstance(f, types.FunctionType):
                        _function_state(f"{short}.{v.__name__}.{ck}", f, out)
                    elif isinstance(cv, property) or isinstance(cv, type):
                        continue
                    else:
                        out[f"classattr:{short}.{v.__name__}.{ck}"] = fp(cv)
            elif isinstance(v, types.FunctionType):
                if v.__module__ == mname:
                    _function_state(f"{short}.{k}", v, out)
            elif isinstance(v, types.BuiltinFunctionType):
                continue
            else:
                if getattr(type(v), "__module__", "").startswith(("logging",)):
                    continue
                out[f"global:{short}.{k}"] = fp(v)
    for k, v in os.environ.items():
        if k.startswith("TORRENTFILE"):
            out[f"environ:{k}"] = v
    # the configuration of the logging tree that decides isEnabledFor / getEffectiveLevel: the root logger's level, the
    # process-wide logging.disable threshold, and level / disabled / propagate of every logger of the package (what the
    # handlers print is benign; whether a level test succeeds is not).  Explained by the cell `logging:level`.
    import logging
    lg = {"root": (logging.root.level, logging.root.disabled), "disable": logging.root.manager.disable}
    for name, obj in sorted(logging.root.manager.loggerDict.items()):
        if (name == PKG or name.startswith(PKG + ".")) and isinstance(obj, logging.Logger):
            lg[name] = (obj.level, obj.disabled, obj.propagate)
    out["logging:level"] = fp(lg)
    out["stream:sys.stdout"] = "real" if sys.stdout is sys.__stdout__ else f"rebound:{type(sys.stdout).__name__}"
    out["stream:sys.stderr"] = "real" if sys.stderr is sys.__stderr__ else f"rebound:{type(sys.stderr).__name__}"
    return out


def diff(before, after):
    """keys whose fingerprint changed, appeared or disappeared"""
    return sorted(k for k in set(before) | set(after) if before.get(k) != after.get(k))


def covered(key, cell_names):
    """is the observed change `key` explained by a cell of GenState.v?  cell names: classattr:<attr>, global:<mod>.<name>,
       funcattr:..., defaultarg:<mod>.<func>[.<param>], memo:/cache:<mod>.<func>, environ:<VAR>, stream:sys.stdout ..."""
    kind, _, rest = key.partition(":")
    last = rest.split(".")[-1].split("#")[0]
    for c in cell_names:
        ck, _, cr = c.partition(":")
        if c == key:
            return True
        if kind == "classattr" and ck == "classattr" and cr.split(".")[-1] == last:
            return True
        if kind == "global" and ck in ("global", "memo", "cache", "decorated") and (cr == rest or cr.split(".")[-1] == last):
            return True
        if kind in ("funcattr", "closure", "defaultarg") and ck in ("funcattr", "defaultarg", "memo", "cache", "decorated", "closure"):
            fn = rest.split("#")[0]
            if cr == fn or cr.startswith(fn + ".") or fn.endswith("." + cr.split(".")[-1]) or cr.split(".")[-1] in fn.split("."):
                return True
        if kind == "environ" and ck == "environ" and (cr == rest or rest.startswith(cr)):
            return True
        if kind == "stream" and c == key:
            return True
        if kind == "logging" and ck == "logging":
            return True
    return False
