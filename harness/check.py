"""
./check <PROPERTY> [--tier quick|thorough] [--replay FILE]
./check --setup

Decision logic (DESIGN.md 2.6):
  regenerate coq/Gen from /repo -> build the property's theorem file -> audit
  Print Assumptions -> correspondence (model vs implementation) -> end-to-end
  search (implementation vs reference oracle) -> pinned reproducers.
"""
import os
import sys
import json
import time
import argparse
import importlib
import subprocess

sys.path.insert(0, os.path.dirname(os.path.abspath(__file__)))
import core  # noqa: E402

ALL = [f"C{i:02d}" for i in range(1, 21)]


def run_repro(ids):
    if not ids:
        return {}
    p = subprocess.run([core.PY, os.path.join(core.VERIF, "harness", "repro.py")] + ids,
                       env=core.impl_env({"HOME": "/nonexistent-home"}), capture_output=True, text=True,
                       timeout=600)
    out = {}
    for line in p.stdout.splitlines():
        parts = line.split(" ", 2)
        if len(parts) >= 2 and parts[0] in ids:
            out[parts[0]] = (parts[1], parts[2] if len(parts) > 2 else "")
    for i in ids:
        out.setdefault(i, ("ERROR", "probe produced no output: " + p.stderr[-300:]))
    return out


def setup():
    t0 = time.time()
    diags = core.regen()
    for k, v in diags.items():
        print(f"[setup] translator refused {k}: {v}")
    # build the closure of every property file (and of the extraction files), not stray work-in-progress files
    import glob
    targets = [os.path.relpath(p, core.COQ) + "o" for p in
               sorted(glob.glob(os.path.join(core.COQ, "Props", "C*.v")) + glob.glob(os.path.join(core.COQ, "Extract", "*.v")))]
    ok, log = core.make(targets, timeout=3000)
    if not ok:
        print(log)
        print("[setup] coq build FAILED")
        return 1
    rc = 0
    if os.path.exists(os.path.join(core.VERIF, "ocaml", "build.sh")):
        p = subprocess.run(["bash", os.path.join(core.VERIF, "ocaml", "build.sh")], capture_output=True, text=True)
        if p.returncode != 0:
            print(p.stdout[-3000:], p.stderr[-3000:])
            print("[setup] ocaml build FAILED")
            rc = 1
    hits = core.grep_forbidden()
    for h in hits:
        print("[setup] forbidden vernacular:", h)
    print(f"[setup] done in {time.time() - t0:.1f}s")
    return rc or (1 if hits else 0)


def _build_phase(mod, pid, ctx):
    # 1. regenerate the generated models from /repo's working tree
    diags = core.regen()
    for k, v in diags.items():
        if k in getattr(mod, "GEN_FILES", []):
            ctx.broken.append(f"translator refused {k}: {v}")
    # 2. build the theorems (full .vo build of the closure of Props/<id>.v)
    targets = [f"Props/{pid}.vo"] + list(getattr(mod, "EXTRA_TARGETS", []))
    ok, log = core.make(targets)
    audit = None
    if not ok:
        tail = "\n".join(l for l in log.splitlines() if l.strip())[-1500:]
        ctx.broken.append("coq build of the property's closure failed: " + tail)
    else:
        audit = core.audit_props(pid)
        if not audit["ok"]:
            missing = [t for t in audit["theorems"] if t not in audit["discharged"]]
            ctx.broken.append(f"theorem audit failed (undischarged: {missing}): {audit['log'][-800:]}")
    hits = core.grep_forbidden()
    if hits:
        ctx.broken.append("forbidden vernacular: " + "; ".join(hits[:5]))
    if ok and ctx.tier == "thorough":
        # independent checker over the closure of the property file; the axioms it lists are those of EVERY loaded library
        chk = core.coqchk(pid)
        ctx.extra["coqchk"] = {"cmd": f"cd coq && coqchk -silent -o -Q . TF TF.Props.{pid}", "ok": chk["ok"], "axioms": chk["axioms"]}
        if not chk["ok"]:
            ctx.broken.append("coqchk rejected the compiled closure of the property file: " + chk["log"][-600:])
        elif any(a.split(".")[0] == "TF" for a in chk["axioms"]):
            ctx.broken.append("coqchk reports an axiom declared by this development: " + "; ".join(chk["axioms"][:5]))
    if ok:
        import modelrun
        for area in getattr(mod, "AREAS", []):
            exe = modelrun.binary(area)
            src = os.path.join(core.VERIF, "ocaml", "build", area, "extracted.ml")
            stale = (not os.path.exists(exe)) or (os.path.exists(src) and os.path.getmtime(src) > os.path.getmtime(exe)) \
                or os.path.getmtime(os.path.join(core.VERIF, "ocaml", "areas", area + ".ml")) > os.path.getmtime(exe)
            if stale:
                with core.Lock("ocaml"):
                    bok, blog = modelrun.build(area)
                if not bok:
                    ctx.broken.append(f"OCaml driver for area {area} failed to build: {blog[-600:]}")
                    ok = False

    return ctx, audit, ok


def check(pid, tier, seed, replay=None):
    mod = importlib.import_module(f"props.{pid.lower()}")
    ctx = core.Ctx(pid, tier, seed)
    if replay:
        return mod.replay(ctx, json.load(open(replay)))

    import glob
    for old in glob.glob(os.path.join(core.REPLAYS, f"{pid}-{seed}-*.json")):
        os.remove(old)
    # phases 1-2 hold one lock so that concurrent checks (possibly against different trees) do not interleave
    with core.Lock("pipeline"):
        ctx, audit, ok = _build_phase(mod, pid, ctx)

    # 3. correspondence and end-to-end search
    # A change of the code under test can make it hang on a generated input (in process or in a runner).  The search gets a
    # budget; when it is used up the run is reported as not finished (the property is then not shown to hold) instead of never
    # returning, and every child process is killed.
    import signal
    budget = int(os.environ.get("VERIF_RUN_BUDGET", "1500" if tier == "quick" else "14400"))

    class _Budget(BaseException):
        pass

    def _alarm(signum, frame):
        raise _Budget()
    signal.signal(signal.SIGALRM, _alarm)
    signal.alarm(budget)
    try:
        mod.run(ctx, model_ok=ok)
    except _Budget:
        ctx.broken.append(f"the correspondence / search did not finish within {budget} s: the implementation hangs or is extremely "
                          f"slow on a generated input ({ctx.evaluations} evaluations were completed before)")
        core.kill_children()
    except Exception as e:  # a crashing harness must not look like a pass
        import traceback
        ctx.broken.append("harness crashed: " + "".join(traceback.format_exception(e))[-1500:])
    finally:
        signal.alarm(0)

    # 4. pinned reproducers of this property
    findings = [f for f in core.load_findings() if f["property"] == pid or pid in f.get("also", [])]
    res = run_repro([f["id"] for f in findings])
    lines, nviol = [], 0
    for f in findings:
        st, detail = res[f["id"]]
        ctx.case(key="repro:" + f["id"], classes=["pinned-reproducer"], nontrivial=True)
        if f["status"] == "known":
            if st == "PRESENT":
                ctx.known_hits[f["id"]] = ctx.known_hits.get(f["id"], 0) + 1
                lines.append(f"KNOWN-FINDING: property={pid} {f['id']} {f['summary']}")
            elif st == "ERROR":
                ctx.broken.append(f"reproducer {f['id']} errored: {detail}")
        else:
            if st == "PRESENT":
                nviol += 1
                path = core.write_replay(ctx, f"regress-{f['id']}", {
                    "kind": "e2e", "reproducer": f["reproducer"], "finding": f["id"],
                    "observed": detail, "note": "a defect repaired by a fix: commit has returned"})
                lines.append(f"VIOLATION property={pid} replay={path}")
            elif st == "ERROR":
                ctx.broken.append(f"reproducer {f['id']} errored: {detail}")

    # 5. classify concrete failures
    classify = getattr(mod, "classify", lambda failure: None)
    unknown = []
    for fl in ctx.failures:
        fid = classify(fl)
        if fid and any(f["id"] == fid and f["status"] == "known" for f in findings):
            ctx.known_hits[fid] = ctx.known_hits.get(fid, 0) + 1
        else:
            unknown.append(fl)
    seen_kinds = set()
    for fl in unknown:
        if fl["kind"] in seen_kinds or len(seen_kinds) >= 5:
            continue
        seen_kinds.add(fl["kind"])
        nviol += 1
        path = core.write_replay(ctx, f"fail-{len(seen_kinds)}", fl)
        lines.append(f"VIOLATION property={pid} replay={path}")
    for fid, n in ctx.known_hits.items():
        msg = next(f["summary"] for f in findings if f["id"] == fid)
        l = f"KNOWN-FINDING: property={pid} {fid} {msg}"
        if l not in lines:
            lines.append(l)

    # 6. proof / translator / correspondence broken without a concrete failing input
    if (ctx.broken or ctx.disagreements) and not unknown:
        nviol += 1
        path = core.write_replay(ctx, "unproved", {
            "kind": "proof-or-correspondence-broken",
            "broken": ctx.broken,
            "disagreements": ctx.disagreements[:5],
            "note": "the property is no longer shown to hold; the search found no input on which its observable fails"})
        lines.append(f"VIOLATION property={pid} replay={path} no-failing-input-found")
    elif ctx.broken or ctx.disagreements:
        # there is a concrete failure as well: record the broken obligations next to it
        core.write_replay(ctx, "unproved", {"kind": "proof-or-correspondence-broken",
                                            "broken": ctx.broken, "disagreements": ctx.disagreements[:5]})

    core.write_evidence(
        ctx, audit,
        checker_cmd=f"cd coq && make -j16 Props/{pid}.vo && coqc -Q . TF Props/{pid}.v   (full .vo build; Print Assumptions parsed)",
        trusted_base=getattr(mod, "TRUSTED_BASE", []),
        rule=getattr(mod, "RULE", ""),
        assumptions=getattr(mod, "ASSUMPTIONS", []),
        violations=nviol)
    for l in lines:
        print(l)
    print(f"[{pid}] tier={tier} seed={seed} theorems={len(audit['discharged']) if audit else 0}/"
          f"{len(audit['theorems']) if audit else '?'} evaluations={ctx.evaluations} "
          f"disagreements={len(ctx.disagreements)} failures={len(ctx.failures)} "
          f"broken={len(ctx.broken)} wall={ctx.elapsed():.1f}s")
    for b in ctx.broken[:4]:
        print(f"[{pid}] broken: {b[:600]}")
    return 1 if nviol else 0


def main():
    ap = argparse.ArgumentParser()
    ap.add_argument("prop", nargs="?")
    ap.add_argument("--setup", action="store_true")
    ap.add_argument("--tier", default=os.environ.get("VERIF_TIER", "quick"))
    ap.add_argument("--replay")
    a = ap.parse_args()
    if a.setup:
        sys.exit(setup())
    seed = int(os.environ.get("VERIF_SEED", "0") or 0)
    tier = a.tier if a.tier in ("quick", "thorough") else "quick"
    if a.prop == "all":
        rc = 0
        for pid in ALL:
            if os.path.exists(os.path.join(core.VERIF, "harness", "props", pid.lower() + ".py")):
                rc |= check(pid, tier, seed)
        sys.exit(rc)
    sys.exit(check(a.prop, tier, seed, a.replay))


if __name__ == "__main__":
    main()
