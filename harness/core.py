"""
Shared machinery of ./check: regeneration of coq/Gen from /repo, the Coq build,
the Print-Assumptions audit, evaluation of models inside Coq, evidence and
violation reporting.  Runs under /venv/bin/python (the interpreter that can
import /repo's dependencies); /repo is imported from its working tree.
"""
import os
import re
import sys
import json
import time
import glob
import fcntl
import random
import shutil
import hashlib
import tempfile
import subprocess

VERIF = os.path.dirname(os.path.dirname(os.path.abspath(__file__)))
REPO = os.environ.get("VERIF_REPO", "/repo")
# VERIF_COQ_DIR: a private copy of coq/ (used by notes/seed_matrix.py so that runs against different trees, which regenerate
# coq/Gen differently, can proceed in parallel); registered commands never set it
COQ = os.environ.get("VERIF_COQ_DIR") or os.path.join(VERIF, "coq")
REPLAYS = os.environ.get("VERIF_REPLAY_DIR") or os.path.join(VERIF, "replays")
GEN = os.path.join(COQ, "Gen")
PY = "/venv/bin/python"
COQ_DIRS = ["Lib", "Spec", "Gen", "Model", "Proofs", "Props", "Extract"]
ALLOWED_AXIOMS = set()      # every property theorem is required to be closed ...
# ... except the theorems about the IEEE double that recheck reports (C04/C05/C16 *_float_*): they are stated over Flocq's
# rounding of real numbers and inherit the axioms that Coq's standard library of reals declares
REAL_AXIOMS = {"ClassicalDedekindReals.sig_not_dec", "ClassicalDedekindReals.sig_forall_dec",
               "FunctionalExtensionality.functional_extensionality_dep", "Classical_Prop.classic"}


def allowed_axioms_for(theorem):
    return ALLOWED_AXIOMS | (REAL_AXIOMS if "_float_" in theorem else set())

sys.path.insert(0, os.path.join(VERIF, "gen"))
sys.path.insert(0, os.path.join(VERIF, "harness"))


def impl_env(extra=None):
    env = dict(os.environ)
    env["PYTHONPATH"] = REPO
    env["PYTHONHASHSEED"] = "0"
    env["PYTHONDONTWRITEBYTECODE"] = "1"
    env.setdefault("TORRENTFILE_VERIF", "1")
    if extra:
        env.update(extra)
    return env


def use_repo_in_process():
    """make `import torrentfile` resolve to REPO's working tree in this process"""
    if sys.path[0] != REPO:
        sys.path.insert(0, REPO)
    for m in list(sys.modules):
        if m == "torrentfile" or m.startswith("torrentfile."):
            f = getattr(sys.modules[m], "__file__", "") or ""
            if not f.startswith(REPO + os.sep):
                del sys.modules[m]
    sys.dont_write_bytecode = True
    os.environ.setdefault("PYTHONHASHSEED", "0")


def kill_children(sig=9):
    """kill every descendant of this process (runners of an implementation that hangs must not outlive the check)"""
    me = os.getpid()
    parents = {}
    for d in os.listdir("/proc"):
        if d.isdigit():
            try:
                with open(f"/proc/{d}/stat") as fd:
                    parents[int(d)] = int(fd.read().rsplit(")", 1)[1].split()[1])
            except (OSError, ValueError, IndexError):
                pass
    todo, victims = [me], []
    while todo:
        p = todo.pop()
        for c, pp in parents.items():
            if pp == p and c != me:
                victims.append(c)
                todo.append(c)
    for v in victims:
        try:
            os.kill(v, sig)
        except OSError:
            pass
    return victims


# --------------------------------------------------------------------------- lock
class Lock:
    def __init__(self, name="build"):
        # the OCaml drivers are shared by every run (no extraction file depends on coq/Gen); coq/ may be a private copy
        self.path = os.path.join(VERIF, "ocaml", ".ocaml.lock") if name == "ocaml" else os.path.join(COQ, f".{name}.lock")

    def __enter__(self):
        self.fd = open(self.path, "w")
        fcntl.flock(self.fd, fcntl.LOCK_EX)
        return self

    def __exit__(self, *a):
        fcntl.flock(self.fd, fcntl.LOCK_UN)
        self.fd.close()


# ------------------------------------------------------------------ regeneration
def regen():
    """run every translator against REPO; returns {generated file: diagnostic}"""
    diags = {}
    os.makedirs(GEN, exist_ok=True)
    import importlib
    for modname in sorted(os.path.basename(p)[:-3] for p in glob.glob(os.path.join(VERIF, "gen", "gen_*.py"))):
        mod = importlib.import_module(modname)
        try:
            d = mod.main(REPO, GEN)
        except Exception as e:  # a crashing translator is a refusal of all of its files
            d = {modname: f"translator crashed: {type(e).__name__}: {e}"}
        diags.update(d or {})
    return diags


def coq_files():
    out = []
    for d in COQ_DIRS:
        out += sorted(glob.glob(os.path.join(COQ, d, "*.v")))
    return [os.path.relpath(p, COQ) for p in out]


def ensure_makefile():
    files = coq_files()
    proj = "-Q . TF\n-arg -w -arg -notation-overridden,-deprecated-hint-without-locality,-deprecated-instance-without-locality\n" \
        + "\n".join(files) + "\n"
    pp = os.path.join(COQ, "_CoqProject")
    old = open(pp).read() if os.path.exists(pp) else None
    if old != proj or not os.path.exists(os.path.join(COQ, "Makefile")):
        with open(pp, "w") as fd:
            fd.write(proj)
        subprocess.run(["coq_makefile", "-f", "_CoqProject", "-o", "Makefile"], cwd=COQ,
                       check=True, capture_output=True)


def make(targets=None, timeout=1500, jobs=16):
    """full .vo build of the given targets (all when None). returns (ok, log)"""
    with Lock():
        ensure_makefile()
        for ex in glob.glob(os.path.join(COQ, "Extract", "Extract*.v")):
            m = re.search(r'Extraction "\.\./ocaml/build/(\w+)/extracted\.ml"', open(ex).read())
            if m:
                d = os.path.join(VERIF, "ocaml", "build", m.group(1))
                os.makedirs(d, exist_ok=True)
                # a missing extracted.ml with an up-to-date .vo must be re-extracted
                if not os.path.exists(os.path.join(d, "extracted.ml")) and os.path.exists(ex + "o"):
                    os.remove(ex + "o")
        cmd = ["timeout", str(timeout), "make", f"-j{jobs}"] + (targets or [])
        p = subprocess.run(cmd, cwd=COQ, capture_output=True, text=True)
        log = p.stdout[-6000:] + p.stderr[-6000:]
        return p.returncode == 0, log


# ------------------------------------------------------------------------- audit
FORBIDDEN = re.compile(r"\b(Admitted|admit|Axiom|Axioms|Parameter|Parameters|Conjecture|"
                       r"Unset\s+Guard|Unset\s+Positivity|Unset\s+Universe|bypass_check|"
                       r"Admit\s+Obligations|type-in-type|impredicative-set)\b")


def strip_comments(text):
    out, depth, i = [], 0, 0
    while i < len(text):
        if text.startswith("(*", i):
            depth += 1
            i += 2
        elif text.startswith("*)", i) and depth:
            depth -= 1
            i += 2
        else:
            if not depth:
                out.append(text[i])
            i += 1
    return "".join(out)


def grep_forbidden():
    """returns list of 'file:line: text' for forbidden vernacular anywhere in coq/"""
    hits = []
    for rel in coq_files():
        text = strip_comments(open(os.path.join(COQ, rel), encoding="utf-8").read())
        depth = 0
        for n, line in enumerate(text.split("\n"), 1):
            if re.match(r"\s*Section\s+\w+", line):
                depth += 1
            elif re.match(r"\s*End\s+\w+", line) and depth:
                depth -= 1
            if FORBIDDEN.search(line):
                hits.append(f"{rel}:{n}: {line.strip()[:100]}")
            if depth == 0 and re.match(r"\s*(Variable|Variables|Hypothesis|Hypotheses|Context)\b", line):
                hits.append(f"{rel}:{n}: section-less {line.strip()[:80]}")
    return hits


def audit_props(prop_id, timeout=600):
    """compile Props/<id>.v on its own and parse theorems and Print Assumptions.
       returns dict(theorems=[...], discharged=[...], assumptions={thm: [...]}, ok, log)"""
    rel = f"Props/{prop_id}.v"
    path = os.path.join(COQ, rel)
    res = {"theorems": [], "discharged": [], "assumptions": {}, "ok": False, "log": ""}
    if not os.path.exists(path):
        res["log"] = f"{rel} does not exist"
        return res
    src = strip_comments(open(path, encoding="utf-8").read())
    thms = re.findall(r"^\s*(?:Theorem|Corollary)\s+(\w+)", src, re.M)
    res["theorems"] = thms
    printed = re.findall(r"Print\s+Assumptions\s+(\w+)\s*\.", src)
    # statements-only discipline: every proof in a Props file is `exact <lemma>`
    proofs = re.findall(r"Proof\.(.*?)Qed\.", src, re.S)
    undisciplined = [p.strip()[:60] for p in proofs[:len(thms)] if not re.fullmatch(r"\s*exact\s+[^.;]+\.\s*", p)]
    with Lock():
        p = subprocess.run(["timeout", str(timeout), "coqc", "-Q", ".", "TF", rel], cwd=COQ,
                           capture_output=True, text=True)
    res["log"] = (p.stdout[-3000:] + p.stderr[-3000:])
    if p.returncode != 0:
        return res
    blocks = re.split(r"(?m)^(?=Closed under the global context|Axioms:)", p.stdout)
    blocks = [b for b in blocks if b.startswith("Closed") or b.startswith("Axioms:")]
    if printed != thms or len(blocks) != len(thms):
        res["log"] += f"\nPrint Assumptions discipline broken: theorems={thms} printed={printed} blocks={len(blocks)}"
        return res
    if undisciplined:
        res["log"] += f"\nProps file contains a proof that is not `exact <lemma>`: {undisciplined}"
        return res
    for t, b in zip(thms, blocks):
        if b.startswith("Closed"):
            ax = []
        else:
            ax = re.findall(r"^(\S+)\s*:", b, re.M)
            ax = [a for a in ax if a != "Axioms"]
        res["assumptions"][t] = ax
        if all(a in allowed_axioms_for(t) for a in ax):
            res["discharged"].append(t)
    res["ok"] = len(res["discharged"]) == len(thms) and len(thms) > 0
    return res


def coqchk(prop_id, timeout=3000):
    """independent re-check of Props/<id>.vo and everything it depends on; returns dict(ok, axioms, log)"""
    with Lock():
        p = subprocess.run(["timeout", str(timeout), "coqchk", "-silent", "-o", "-Q", ".", "TF", f"TF.Props.{prop_id}"], cwd=COQ,
                           capture_output=True, text=True)
    out = p.stdout + p.stderr
    res = {"ok": p.returncode == 0, "axioms": [], "log": out[-1500:]}
    m = re.search(r"\* Axioms:(.*?)\n\s*\n\* Constants/Inductives relying on type-in-type:(.*?)\n\s*\n\* Constants/Inductives relying on unsafe"
                  r" \(co\)fixpoints:(.*?)\n\s*\n\* Inductives whose positivity is assumed:(.*?)\n", out + "\n", re.S)
    if not m:
        res["ok"] = False
        return res
    ax, tit, unsafe, pos = [x.strip() for x in m.groups()]
    res["axioms"] = [] if ax == "<none>" else [a.strip() for a in ax.splitlines() if a.strip()]
    if tit != "<none>" or unsafe != "<none>" or pos != "<none>":
        res["ok"] = False
        res["log"] = f"type-in-type: {tit}; unsafe fixpoints: {unsafe}; assumed positivity: {pos}"
    return res


# ------------------------------------------------------------ evaluation in Coq
def coq_eval_failing(preamble, items, check_fn, shard=400, jobs=8, timeout=600):
    """
    items: list of Gallina terms (strings) all of one type T; check_fn: Gallina
    term of type T -> bool.  Evaluates `check_fn item` for every item with
    vm_compute inside coqc and returns the list of indices where it is false.
    Returns (bad_indices, error_text_or_None).
    """
    tmp = tempfile.mkdtemp(prefix="vcases_")
    try:
        shards = [items[i:i + shard] for i in range(0, len(items), shard)]
        procs = []
        bad, err = [], None
        for si, sh in enumerate(shards):
            name = f"cases_{si}"
            body = [preamble, "From Coq Require Import List ZArith. Import ListNotations.",
                    f"Definition the_cases := [\n" + ";\n".join(sh) + "\n].",
                    "Fixpoint bad_idx {A} (f : A -> bool) (i : nat) (l : list A) : list nat :=",
                    "  match l with [] => [] | x :: r => if f x then bad_idx f (S i) r else i :: bad_idx f (S i) r end.",
                    f"Eval vm_compute in (bad_idx ({check_fn}) 0 the_cases)."]
            with open(os.path.join(tmp, name + ".v"), "w", encoding="utf-8") as fd:
                fd.write("\n".join(body) + "\n")
            procs.append((si, name))
        # run in parallel batches
        running = []

        def reap(block):
            nonlocal err
            for item in list(running):
                si, pr = item
                if block:
                    pr.wait()
                if pr.poll() is not None:
                    out, er = pr.communicate()
                    running.remove(item)
                    if pr.returncode != 0:
                        err = (err or "") + f"shard {si}: {er[-1500:]}\n"
                        continue
                    m = re.search(r"=\s*\[(.*?)\]\s*:\s*list nat", out, re.S)
                    if not m:
                        err = (err or "") + f"shard {si}: unparsable output {out[-300:]}\n"
                        continue
                    for tok in re.findall(r"\d+", m.group(1)):
                        bad.append(si * shard + int(tok))
                    return

        for si, name in procs:
            while len(running) >= jobs:
                reap(False)
                time.sleep(0.02)
            pr = subprocess.Popen(["timeout", str(timeout), "coqc", "-Q", COQ, "TF", name + ".v"],
                                  cwd=tmp, stdout=subprocess.PIPE, stderr=subprocess.PIPE, text=True)
            running.append((si, pr))
        while running:
            reap(True)
        return sorted(bad), err
    finally:
        shutil.rmtree(tmp, ignore_errors=True)


def zlit(n):
    return f"({int(n)})%Z"


def coq_string(s):
    """Coq string literal for an str that contains only printable ASCII; None otherwise"""
    if all(32 <= ord(c) < 127 for c in s):
        return '"' + s.replace('"', '""') + '"%string'
    return None


# ------------------------------------------------------------------ known findings
def load_findings():
    with open(os.path.join(VERIF, "known_findings.json"), encoding="utf-8") as fd:
        return json.load(fd)["findings"]


# ------------------------------------------------------------------------ context
class Ctx:
    """per-run state of one property check"""

    def __init__(self, prop_id, tier, seed):
        self.prop = prop_id
        self.tier = tier
        self.seed = seed
        self.rng = random.Random(f"{prop_id}:{seed}")
        self.t0 = time.time()
        self.evaluations = 0
        self.nontrivial = set()
        self.classes = {}
        self.samples = []
        self.traces_validated = 0
        self.failures = []        # concrete violations: dict(kind, input, expected, observed, detail)
        self.disagreements = []   # model vs implementation
        self.broken = []          # proof / translator / build problems (strings)
        self.known_hits = {}      # finding id -> count
        self.notes = []
        self.extra = {}
        self.exhaustive = False

    def case(self, key=None, classes=(), nontrivial=True, sample=None):
        """count one explored case"""
        self.evaluations += 1
        if nontrivial and key is not None:
            self.nontrivial.add(key if isinstance(key, (str, int, tuple)) else repr(key))
        for c in classes:
            self.classes[c] = self.classes.get(c, 0) + 1
        if sample is not None and len(self.samples) < 6:
            self.samples.append(sample)

    def fail(self, kind, input_, expected, observed, detail=""):
        self.failures.append({"kind": kind, "input": input_, "expected": expected,
                              "observed": observed, "detail": detail})

    def disagree(self, what, input_, model, impl):
        self.disagreements.append({"what": what, "input": input_, "model": model, "impl": impl})

    def elapsed(self):
        return time.time() - self.t0


def _text(s):
    """a str that can be written as UTF-8: lone surrogates (names that are not valid UTF-8, as os.fsdecode gives them) become
       visible escapes instead of crashing the writer"""
    try:
        s.encode("utf-8")
        return s
    except UnicodeEncodeError:
        return s.encode("utf-8", "backslashreplace").decode("utf-8")


def jsonable(x):
    if isinstance(x, (bytes, bytearray)):
        return {"hex": bytes(x).hex()}
    if isinstance(x, dict):
        return {(_text(k) if isinstance(k, str) else repr(k)): jsonable(v) for k, v in x.items()}
    if isinstance(x, (list, tuple, set)):
        return [jsonable(v) for v in x]
    if isinstance(x, str):
        return _text(x)
    if isinstance(x, (int, float, bool)) or x is None:
        return x
    return _text(repr(x))


def write_replay(ctx, n, payload):
    os.makedirs(REPLAYS, exist_ok=True)
    path = os.path.join(REPLAYS, f"{ctx.prop}-{ctx.seed}-{n}.json")
    payload = dict(payload)
    payload.update({"property": ctx.prop, "seed": ctx.seed, "tier": ctx.tier})
    with open(path, "w", encoding="utf-8") as fd:
        json.dump(jsonable(payload), fd, indent=1, ensure_ascii=False)
    return path


def write_evidence(ctx, audit, checker_cmd, trusted_base, rule, assumptions, violations, level="proof"):
    cov = {
        "obligations": len(audit["theorems"]) if audit else 0,
        "discharged": len(audit["discharged"]) if audit else 0,
        "checker_cmd": checker_cmd,
        "trusted_base": trusted_base,
        "theorems": audit["theorems"] if audit else [],
        "assumptions_seen": audit["assumptions"] if audit else {},
        "evaluations": ctx.evaluations,
        "distinct_nontrivial": len(ctx.nontrivial),
        "rule": rule,
        "samples": jsonable(ctx.samples) or ["(no sample recorded)"],
        "traces_validated_against_impl": ctx.traces_validated,
        "classes": ctx.classes,
        "exhaustive": bool(ctx.exhaustive),
        "model_vs_impl_disagreements": len(ctx.disagreements),
        "broken_obligations": ctx.broken,
        "known_findings_seen": ctx.known_hits,
        "notes": ctx.notes,
    }
    cov.update(ctx.extra)
    ev = {"property_id": ctx.prop, "tier": ctx.tier, "seed": ctx.seed, "level": level,
          "coverage": cov, "assumptions": assumptions, "wall_s": round(ctx.elapsed(), 2),
          "violations": violations}
    # evidence/ describes runs against /repo itself only: a run against another tree (VERIF_REPO, used to try seeded changes)
    # leaves its record in a scratch directory instead
    evdir = os.path.join(VERIF, "evidence") if os.path.realpath(REPO) == "/repo" else \
        os.environ.get("VERIF_EVIDENCE_DIR", os.path.join(tempfile.gettempdir(), "verif-evidence-other-tree"))
    os.makedirs(evdir, exist_ok=True)
    with open(os.path.join(evdir, f"{ctx.prop}.json"), "w", encoding="utf-8") as fd:
        json.dump(jsonable(ev), fd, indent=1, ensure_ascii=False)


class Scratch:
    """scratch directory outside /repo and /verif, always removed"""

    def __init__(self, prefix="vscratch_"):
        self.prefix = prefix

    def __enter__(self):
        self.path = tempfile.mkdtemp(prefix=self.prefix)
        return self.path

    def __exit__(self, *a):
        shutil.rmtree(self.path, ignore_errors=True)


def ast_hash(path, names):
    """hash of the normalised AST of the given functions/classes ('Class.method' allowed)"""
    import ast
    tree = ast.parse(open(path, encoding="utf-8").read())
    out = {}
    for name in names:
        parts = name.split(".")
        body = tree.body
        node = None
        for p in parts:
            node = next((n for n in body if isinstance(n, (ast.FunctionDef, ast.ClassDef)) and n.name == p), None)
            if node is None:
                break
            body = node.body
        if node is None:
            out[name] = None
            continue
        # drop docstring
        if node.body and isinstance(node.body[0], ast.Expr) and isinstance(node.body[0].value, ast.Constant):
            node.body = node.body[1:] or [ast.Pass()]
        out[name] = hashlib.sha256(ast.dump(node).encode()).hexdigest()[:16]
    return out
