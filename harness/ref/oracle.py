"""
Specification-level reference implementation, sharing no code with /repo or
pyben: strict bencode, BEP 3 piece hashing, BEP 52 merkle trees (two independent
formulations), BEP 47 padding, a reference verifier and a reference metafile
encoder.  Used (1) to search for concrete failing inputs end to end and (2) as a
cross-check of the Coq Spec functions.
"""
import os
import hashlib

BLOCK = 16384
ZERO32 = bytes(32)


# ------------------------------------------------------------------ strict bencode
class BencodeError(ValueError):
    pass


def bdecode_strict(data, want_span=None):
    """
    Strict decoder: canonical integers and lengths, string keys, strictly
    ascending unique raw-byte keys, nothing after the top-level value.
    Returns the value (dict keys and strings as bytes).  If want_span is a
    top-level key (bytes), returns (value, (start, end)) with the byte span of
    that key's value.
    """
    span = {}

    def num(i, end_ch):
        j = i
        if j < len(data) and data[j:j + 1] == b"-":
            j += 1
        k = j
        while k < len(data) and 48 <= data[k] <= 57:
            k += 1
        if k == j:
            raise BencodeError(f"digits expected at {i}")
        digits = data[j:k]
        if len(digits) > 1 and digits[0] == 48:
            raise BencodeError(f"leading zero at {i}")
        if data[i:i + 1] == b"-" and digits == b"0":
            raise BencodeError(f"negative zero at {i}")
        if data[k:k + 1] != end_ch:
            raise BencodeError(f"{end_ch!r} expected at {k}")
        return int(data[i:k]), k + 1

    def val(i, depth):
        if i >= len(data):
            raise BencodeError("unexpected end")
        c = data[i:i + 1]
        if c == b"i":
            v, j = num(i + 1, b"e")
            return v, j
        if 48 <= data[i] <= 57:
            n, j = num(i, b":")
            if j + n > len(data):
                raise BencodeError(f"string overruns input at {i}")
            return data[j:j + n], j + n
        if c == b"l":
            out, j = [], i + 1
            while data[j:j + 1] != b"e":
                v, j = val(j, depth + 1)
                out.append(v)
            return out, j + 1
        if c == b"d":
            out, j, last = {}, i + 1, None
            while data[j:j + 1] != b"e":
                if j >= len(data):
                    raise BencodeError("unexpected end in dict")
                k, j2 = val(j, depth + 1)
                if not isinstance(k, bytes):
                    raise BencodeError(f"non-string key at {j}")
                if last is not None and not last < k:
                    raise BencodeError(f"keys not strictly ascending at {j}: {last!r} then {k!r}")
                last = k
                v, j3 = val(j2, depth + 1)
                if depth == 0:
                    span[k] = (j2, j3)
                out[k] = v
                j = j3
            return out, j + 1
        raise BencodeError(f"bad type byte {c!r} at {i}")

    v, end = val(0, 0)
    if end != len(data):
        raise BencodeError(f"trailing bytes after offset {end}")
    if want_span is not None:
        return v, span.get(want_span)
    return v



class OrderedPairs(list):
    """a bencoded dictionary as the list of its (key, value) pairs in FILE order (bdecode_lenient / bencode_ordered)"""


def bdecode_lenient(data, want_span=None):
    """
    Order-preserving decoder for metafiles "as third-party tools write them": dictionaries become OrderedPairs in file
    order, keys need not be sorted (duplicates are kept), integers and lengths must still be well formed.  With
    want_span (a top-level key) returns (value, (start, end)) of the FIRST occurrence of that key's value.
    """
    span = {}

    def num(i, end_ch):
        k = i + 1 if data[i:i + 1] == b"-" else i
        j = k
        while j < len(data) and 48 <= data[j] <= 57:
            j += 1
        if j == k or data[j:j + 1] != end_ch:
            raise BencodeError(f"bad number at {i}")
        return int(data[i:j]), j + 1

    def val(i, depth):
        if i >= len(data):
            raise BencodeError("unexpected end")
        c = data[i:i + 1]
        if c == b"i":
            return num(i + 1, b"e")
        if 48 <= data[i] <= 57:
            n, j = num(i, b":")
            if j + n > len(data):
                raise BencodeError(f"string overruns input at {i}")
            return data[j:j + n], j + n
        if c == b"l":
            out, j = [], i + 1
            while data[j:j + 1] != b"e":
                v, j = val(j, depth + 1)
                out.append(v)
            return out, j + 1
        if c == b"d":
            out, j = OrderedPairs(), i + 1
            while data[j:j + 1] != b"e":
                if j >= len(data):
                    raise BencodeError("unexpected end in dict")
                k, j2 = val(j, depth + 1)
                v, j3 = val(j2, depth + 1)
                if depth == 0:
                    span.setdefault(k, (j2, j3))
                out.append((k, v))
                j = j3
            return out, j + 1
        raise BencodeError(f"unexpected byte at {i}")

    v, end = val(0, 0)
    if end != len(data):
        raise BencodeError("trailing bytes")
    if want_span is not None:
        return v, span.get(want_span)
    return v


def bencode_ordered(v):
    """encoder that keeps the order of OrderedPairs (and sorts plain dicts): writes non-canonical files on purpose"""
    if isinstance(v, OrderedPairs):
        return b"d" + b"".join(bencode_ordered(k) + bencode_ordered(x) for k, x in v) + b"e"
    if isinstance(v, dict):
        return b"d" + b"".join(bencode_ordered(k) + bencode_ordered(v[k]) for k in sorted(v)) + b"e"
    if isinstance(v, (list, tuple)):
        return b"l" + b"".join(bencode_ordered(x) for x in v) + b"e"
    if isinstance(v, bool):
        raise TypeError("bool")
    if isinstance(v, int):
        return b"i%de" % v
    if isinstance(v, str):
        v = v.encode("utf-8", "surrogateescape")
    return b"%d:%s" % (len(v), bytes(v))


def plain(v):
    """OrderedPairs -> dict (last duplicate wins, as a lenient reader sees it), recursively"""
    if isinstance(v, OrderedPairs):
        return {k: plain(x) for k, x in v}
    if isinstance(v, list):
        return [plain(x) for x in v]
    return v

def bencode(v):
    """canonical encoder (sorts keys by raw bytes); str -> utf-8"""
    if isinstance(v, bool):
        raise BencodeError("bool")
    if isinstance(v, int):
        return b"i%de" % v
    if isinstance(v, str):
        v = v.encode("utf-8")
    if isinstance(v, (bytes, bytearray)):
        return b"%d:%s" % (len(v), bytes(v))
    if isinstance(v, (list, tuple)):
        return b"l" + b"".join(bencode(x) for x in v) + b"e"
    if isinstance(v, dict):
        items = sorted(((k.encode("utf-8") if isinstance(k, str) else bytes(k)), x) for k, x in v.items())
        for a, b in zip(items, items[1:]):
            if a[0] == b[0]:
                raise BencodeError("duplicate key")
        return b"d" + b"".join(bencode(k) + bencode(x) for k, x in items) + b"e"
    raise BencodeError(f"cannot encode {type(v).__name__}")


def is_canonical(data):
    try:
        bdecode_strict(data)
        return True, ""
    except (BencodeError, IndexError) as e:
        return False, str(e)


# ------------------------------------------------------------------------- hashing
def v1_pieces(stream, pl):
    return [hashlib.sha1(stream[i:i + pl]).digest() for i in range(0, len(stream), pl)]


def leaves(data):
    return [hashlib.sha256(data[i:i + BLOCK]).digest() for i in range(0, len(data), BLOCK)]


def _pair(a, b):
    return hashlib.sha256(a + b).digest()


def root_topdown(lv):
    """formulation 1: recursive balanced tree over leaves padded to 2^h"""
    n = len(lv)
    size = 1
    while size < n:
        size *= 2
    lv = lv + [ZERO32] * (size - n)

    def rec(lo, hi):
        if hi - lo == 1:
            return lv[lo]
        mid = (lo + hi) // 2
        return _pair(rec(lo, mid), rec(mid, hi))
    return rec(0, size)


def root_bottomup(lv):
    """formulation 2: iterative pairing with a per-level zero-subtree pad"""
    lv = list(lv)
    pad = ZERO32
    while len(lv) > 1:
        if len(lv) % 2:
            lv.append(pad)
        lv = [_pair(lv[i], lv[i + 1]) for i in range(0, len(lv), 2)]
        pad = _pair(pad, pad)
    return lv[0]


def pieces_root(data):
    lv = leaves(data)
    a, b = root_topdown(lv), root_bottomup(lv)
    assert a == b, "reference formulations disagree"
    return a


def piece_layer(data, pl):
    """hashes of the tree layer where one hash covers one piece; padding-only nodes omitted"""
    per = pl // BLOCK
    lv = leaves(data)
    out = []
    for i in range(0, len(lv), per):
        grp = lv[i:i + per]
        grp = grp + [ZERO32] * (per - len(grp))
        out.append(root_topdown(grp))
    return out


def root_from_layer(layer, pl):
    """root recomputed from a piece layer (for multi-piece files)"""
    per = pl // BLOCK
    pad = root_topdown([ZERO32] * per)
    lv = list(layer)
    size = 1
    while size < len(lv):
        size *= 2
    lv += [pad] * (size - len(lv))
    while len(lv) > 1:
        lv = [_pair(lv[i], lv[i + 1]) for i in range(0, len(lv), 2)]
    return lv[0]


# ------------------------------------------------------------------ content trees
def walk_tree(root):
    """sorted list of (relative component tuple, absolute path) of regular files; raw-byte order per directory"""
    out = []

    def rec(p, rel):
        names = sorted(os.listdir(p), key=lambda s: s.encode("utf-8", "surrogateescape"))
        for n in names:
            q = os.path.join(p, n)
            if os.path.isdir(q):
                rec(q, rel + (n,))
            elif os.path.isfile(q):
                out.append((rel + (n,), q))
    if os.path.isfile(root):
        return [((), root)]
    rec(root, ())
    return out


def read(p):
    with open(p, "rb") as fd:
        return fd.read()


def file_tree_dict(files):
    """files: list of (components, data) -> BEP 52 file tree (bytes keys)"""
    tree = {}
    for comps, data in files:
        d = tree
        for c in comps[:-1]:
            d = d.setdefault(c.encode(), {})
        leaf = {b"length": len(data)}
        if data:
            leaf[b"pieces root"] = pieces_root(data)
        d[comps[-1].encode()] = {b"": leaf}
    return tree


def ref_metafile(name, files, pl, version, single=False, extra_top=None, extra_info=None, trailing_pad=False):
    """
    Specification-conformant reference encoder.
    files: list of (components tuple, data) in tree order; single: one file,
    components ignored.  version 1 | 2 | 3 (hybrid).  No info.length for v2-only
    single files, no trailing padding entry for hybrids (unless trailing_pad).
    """
    info = {b"name": name.encode(), b"piece length": pl}
    top = {}
    if version in (2, 3):
        info[b"meta version"] = 2
        if single:
            info[b"file tree"] = file_tree_dict([((name,), files[0][1])])
        else:
            info[b"file tree"] = file_tree_dict(files)
        layers = {}
        for _, data in files:
            if len(data) > pl:
                layers[pieces_root(data)] = b"".join(piece_layer(data, pl))
        top[b"piece layers"] = layers
    if version in (1, 3):
        if single:
            info[b"length"] = len(files[0][1])
            stream = files[0][1]
        else:
            flist, stream = [], b""
            for i, (comps, data) in enumerate(files):
                flist.append({b"length": len(data), b"path": [c.encode() for c in comps]})
                stream += data
                if version == 3:
                    gap = -len(data) % pl
                    last = i == len(files) - 1
                    if gap and (not last or trailing_pad):
                        flist.append({b"attr": b"p", b"length": gap, b"path": [b".pad", str(gap).encode()]})
                        stream += bytes(gap)
            info[b"files"] = flist
        info[b"pieces"] = b"".join(v1_pieces(stream, pl))
    if extra_info:
        info.update(extra_info)
    top[b"info"] = info
    if extra_top:
        top.update(extra_top)
    return bencode(top)


# ----------------------------------------------------------------- reference verifier
def _norm_meta(meta):
    return meta


def v1_layout(info):
    """list of (components|None for pad, length) in stream order from a strict-decoded info dict"""
    if b"files" in info:
        out = []
        for f in info[b"files"]:
            pad = f.get(b"attr") == b"p" or (b"attr" in f and b"p" in f[b"attr"])
            out.append((None if pad else tuple(c.decode("utf-8", "surrogateescape") for c in f[b"path"]), f[b"length"]))
        return out
    return [((), info[b"length"])]


def v2_layout(info):
    out = []

    def rec(tree, rel):
        for k in tree:           # strict decode => ascending
            v = tree[k]
            if b"" in v and isinstance(v[b""], dict) and b"length" in v[b""]:
                out.append((rel + (k.decode("utf-8", "surrogateescape"),), v[b""][b"length"], v[b""].get(b"pieces root")))
            else:
                rec(v, rel + (k.decode("utf-8", "surrogateescape"),))
    rec(info[b"file tree"], ())
    return out


def disk_bytes(root, comps, length, single):
    """on-disk bytes of a listed file, zero-filled to its recorded length (absent data = zeros)"""
    p = root if single else os.path.join(root, *comps)
    data = b""
    if os.path.isfile(p):
        data = read(p)[:length]
    return data + bytes(length - len(data))


def verify_v1(meta, root):
    """returns (matched_bytes, total_bytes, verdicts list[(ok, size)]); pad entries are zeros"""
    info = meta[b"info"]
    pl = info[b"piece length"]
    single = b"files" not in info
    stream = b""
    for comps, length in v1_layout(info):
        stream += bytes(length) if comps is None else disk_bytes(root, comps, length, single)
    rec = info[b"pieces"]
    verdicts = []
    for n, i in enumerate(range(0, len(stream), pl)):
        piece = stream[i:i + pl]
        verdicts.append((hashlib.sha1(piece).digest() == rec[20 * n:20 * n + 20], len(piece)))
    matched = sum(s for ok, s in verdicts if ok)
    return matched, len(stream), verdicts


def verify_v2(meta, root):
    """per-file pieces; returns (matched, total, verdicts)"""
    info = meta[b"info"]
    pl = info[b"piece length"]
    layers = meta.get(b"piece layers", {})
    files = v2_layout(info)
    single = len(files) == 1 and os.path.isfile(root)
    verdicts = []
    for comps, length, proot in files:
        if length == 0:
            continue
        data = disk_bytes(root, comps, length, single)
        if length > pl:
            rec = layers.get(proot, b"")
            mine = piece_layer(data, pl)
            for n, h in enumerate(mine):
                size = min(pl, length - n * pl)
                verdicts.append((h == rec[32 * n:32 * n + 32], size))
        else:
            verdicts.append((pieces_root(data) == proot, length))
    matched = sum(s for ok, s in verdicts if ok)
    return matched, sum(s for _, s in verdicts), verdicts


def verify(meta, root):
    """dispatch like a client: v1 view when pieces exist and no 'meta version', else v2 view"""
    info = meta[b"info"]
    if b"meta version" in info:
        return verify_v2(meta, root)
    return verify_v1(meta, root)
