#!/bin/bash
# builds one driver per area: ocaml/bin/<area> from ocaml/build/<area>/extracted.ml(i) (written by
# coq/Extract/Extract<Area>.v), sha.ml, wire.ml and ocaml/areas/<area>.ml
set -e
cd "$(dirname "$0")"
mkdir -p bin
rc=0
for ad in areas/*.ml; do
  area=$(basename "$ad" .ml)
  [ -n "$1" ] && [ "$1" != "$area" ] && continue
  d=build/$area
  if [ ! -f "$d/extracted.ml" ]; then echo "[ocaml] $area: no extracted.ml (extraction not built)"; rc=1; continue; fi
  cp sha.ml wire.ml "$d/"; cp "$ad" "$d/adapter.ml"
  if (cd "$d" && timeout 600 ocamlfind ocamlopt -w -a -package zarith -linkpkg extracted.mli extracted.ml sha.ml wire.ml adapter.ml -o ../../bin/$area); then
    if ! echo "selftest" | ./bin/$area | grep -q "SELFTEST OK"; then echo "[ocaml] $area: selftest FAILED"; rc=1; fi
  else
    echo "[ocaml] $area: build FAILED"; rc=1
  fi
done
exit $rc
