(* SHA-1 and SHA-256 on OCaml strings, written for the correspondence driver
   (no crypto library is installed).  Self-tested against hashlib vectors by
   `driver selftest`.  Trusted for the correspondence only. *)

let m32 = 0xFFFFFFFF
let rotl x n = ((x lsl n) lor (x lsr (32 - n))) land m32
let rotr x n = ((x lsr n) lor (x lsl (32 - n))) land m32

let pad_message (s : string) : Bytes.t =
  let len = String.length s in
  let padlen = let r = (len + 9) mod 64 in if r = 0 then 0 else 64 - r in
  let total = len + 9 + padlen in
  let b = Bytes.make total '\000' in
  Bytes.blit_string s 0 b 0 len;
  Bytes.set b len '\128';
  let bits = len * 8 in
  for i = 0 to 7 do
    Bytes.set b (total - 1 - i) (Char.chr ((bits lsr (8 * i)) land 0xFF))
  done;
  b

let be32 b off =
  (Char.code (Bytes.get b off) lsl 24) lor (Char.code (Bytes.get b (off + 1)) lsl 16)
  lor (Char.code (Bytes.get b (off + 2)) lsl 8) lor Char.code (Bytes.get b (off + 3))

let put32 buf v =
  Buffer.add_char buf (Char.chr ((v lsr 24) land 0xFF));
  Buffer.add_char buf (Char.chr ((v lsr 16) land 0xFF));
  Buffer.add_char buf (Char.chr ((v lsr 8) land 0xFF));
  Buffer.add_char buf (Char.chr (v land 0xFF))

let sha1 (s : string) : string =
  let b = pad_message s in
  let h0 = ref 0x67452301 and h1 = ref 0xEFCDAB89 and h2 = ref 0x98BADCFE
  and h3 = ref 0x10325476 and h4 = ref 0xC3D2E1F0 in
  let w = Array.make 80 0 in
  for blk = 0 to Bytes.length b / 64 - 1 do
    for t = 0 to 15 do w.(t) <- be32 b (blk * 64 + t * 4) done;
    for t = 16 to 79 do
      w.(t) <- rotl (w.(t-3) lxor w.(t-8) lxor w.(t-14) lxor w.(t-16)) 1
    done;
    let a = ref !h0 and bb = ref !h1 and c = ref !h2 and d = ref !h3 and e = ref !h4 in
    for t = 0 to 79 do
      let f, k =
        if t < 20 then ((!bb land !c) lor ((lnot !bb) land m32 land !d)), 0x5A827999
        else if t < 40 then (!bb lxor !c lxor !d), 0x6ED9EBA1
        else if t < 60 then ((!bb land !c) lor (!bb land !d) lor (!c land !d)), 0x8F1BBCDC
        else (!bb lxor !c lxor !d), 0xCA62C1D6 in
      let tmp = (rotl !a 5 + f + !e + k + w.(t)) land m32 in
      e := !d; d := !c; c := rotl !bb 30; bb := !a; a := tmp
    done;
    h0 := (!h0 + !a) land m32; h1 := (!h1 + !bb) land m32; h2 := (!h2 + !c) land m32;
    h3 := (!h3 + !d) land m32; h4 := (!h4 + !e) land m32
  done;
  let buf = Buffer.create 20 in
  List.iter (put32 buf) [!h0; !h1; !h2; !h3; !h4];
  Buffer.contents buf

let k256 = [|
  0x428a2f98; 0x71374491; 0xb5c0fbcf; 0xe9b5dba5; 0x3956c25b; 0x59f111f1; 0x923f82a4; 0xab1c5ed5;
  0xd807aa98; 0x12835b01; 0x243185be; 0x550c7dc3; 0x72be5d74; 0x80deb1fe; 0x9bdc06a7; 0xc19bf174;
  0xe49b69c1; 0xefbe4786; 0x0fc19dc6; 0x240ca1cc; 0x2de92c6f; 0x4a7484aa; 0x5cb0a9dc; 0x76f988da;
  0x983e5152; 0xa831c66d; 0xb00327c8; 0xbf597fc7; 0xc6e00bf3; 0xd5a79147; 0x06ca6351; 0x14292967;
  0x27b70a85; 0x2e1b2138; 0x4d2c6dfc; 0x53380d13; 0x650a7354; 0x766a0abb; 0x81c2c92e; 0x92722c85;
  0xa2bfe8a1; 0xa81a664b; 0xc24b8b70; 0xc76c51a3; 0xd192e819; 0xd6990624; 0xf40e3585; 0x106aa070;
  0x19a4c116; 0x1e376c08; 0x2748774c; 0x34b0bcb5; 0x391c0cb3; 0x4ed8aa4a; 0x5b9cca4f; 0x682e6ff3;
  0x748f82ee; 0x78a5636f; 0x84c87814; 0x8cc70208; 0x90befffa; 0xa4506ceb; 0xbef9a3f7; 0xc67178f2 |]

let sha256 (s : string) : string =
  let b = pad_message s in
  let h = [| 0x6a09e667; 0xbb67ae85; 0x3c6ef372; 0xa54ff53a; 0x510e527f; 0x9b05688c; 0x1f83d9ab; 0x5be0cd19 |] in
  let w = Array.make 64 0 in
  for blk = 0 to Bytes.length b / 64 - 1 do
    for t = 0 to 15 do w.(t) <- be32 b (blk * 64 + t * 4) done;
    for t = 16 to 63 do
      let s0 = rotr w.(t-15) 7 lxor rotr w.(t-15) 18 lxor (w.(t-15) lsr 3) in
      let s1 = rotr w.(t-2) 17 lxor rotr w.(t-2) 19 lxor (w.(t-2) lsr 10) in
      w.(t) <- (w.(t-16) + s0 + w.(t-7) + s1) land m32
    done;
    let a = ref h.(0) and bb = ref h.(1) and c = ref h.(2) and d = ref h.(3)
    and e = ref h.(4) and f = ref h.(5) and g = ref h.(6) and hh = ref h.(7) in
    for t = 0 to 63 do
      let s1 = rotr !e 6 lxor rotr !e 11 lxor rotr !e 25 in
      let ch = (!e land !f) lxor ((lnot !e) land m32 land !g) in
      let t1 = (!hh + s1 + ch + k256.(t) + w.(t)) land m32 in
      let s0 = rotr !a 2 lxor rotr !a 13 lxor rotr !a 22 in
      let maj = (!a land !bb) lxor (!a land !c) lxor (!bb land !c) in
      let t2 = (s0 + maj) land m32 in
      hh := !g; g := !f; f := !e; e := (!d + t1) land m32;
      d := !c; c := !bb; bb := !a; a := (t1 + t2) land m32
    done;
    h.(0) <- (h.(0) + !a) land m32; h.(1) <- (h.(1) + !bb) land m32;
    h.(2) <- (h.(2) + !c) land m32; h.(3) <- (h.(3) + !d) land m32;
    h.(4) <- (h.(4) + !e) land m32; h.(5) <- (h.(5) + !f) land m32;
    h.(6) <- (h.(6) + !g) land m32; h.(7) <- (h.(7) + !hh) land m32
  done;
  let buf = Buffer.create 32 in
  Array.iter (put32 buf) h;
  Buffer.contents buf

(* char list <-> string, tail recursive *)
let string_of_chars (l : char list) : string =
  let buf = Buffer.create 1024 in
  List.iter (Buffer.add_char buf) l; Buffer.contents buf

let chars_of_string (s : string) : char list =
  let r = ref [] in
  for i = String.length s - 1 downto 0 do r := s.[i] :: !r done; !r

let sha1_chars l = chars_of_string (sha1 (string_of_chars l))
let sha256_chars l = chars_of_string (sha256 (string_of_chars l))
