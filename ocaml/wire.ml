(* Conversions between the wire format of the correspondence driver and the
   extracted Coq datatypes.  Compiled once per area against that area's
   `Extracted` module (nat = O | S, positive, Z stay the extracted inductives). *)
module ZA = Z
open Extracted

let nat_of_int (n : int) : nat =
  let r = ref O in for _ = 1 to n do r := S !r done; !r

let int_of_nat (n : nat) : int =
  let rec go acc = function O -> acc | S m -> go (acc + 1) m in go 0 n

let rec pos_of_zarith (n : ZA.t) : positive =
  if ZA.equal n ZA.one then XH
  else if ZA.is_even n then XO (pos_of_zarith (ZA.shift_right n 1))
  else XI (pos_of_zarith (ZA.shift_right n 1))

let z_of_string (s : string) : z =
  let n = ZA.of_string s in
  if ZA.sign n = 0 then Z0 else if ZA.sign n > 0 then Zpos (pos_of_zarith n) else Zneg (pos_of_zarith (ZA.neg n))

let rec zarith_of_pos = function
  | XH -> ZA.one
  | XO p -> ZA.shift_left (zarith_of_pos p) 1
  | XI p -> ZA.succ (ZA.shift_left (zarith_of_pos p) 1)

let string_of_z (v : z) : string = match v with
  | Z0 -> "0" | Zpos p -> ZA.to_string (zarith_of_pos p) | Zneg p -> ZA.to_string (ZA.neg (zarith_of_pos p))

let hexval c = match c with
  | '0'..'9' -> Char.code c - 48 | 'a'..'f' -> Char.code c - 87 | 'A'..'F' -> Char.code c - 55
  | _ -> failwith "bad hex"

let chars_of_hex (s : string) : char list =
  let n = String.length s / 2 in
  let r = ref [] in
  for i = n - 1 downto 0 do
    r := Char.chr (hexval s.[2*i] * 16 + hexval s.[2*i+1]) :: !r
  done; !r

let hex_of_chars (l : char list) : string =
  let buf = Buffer.create 256 in
  List.iter (fun c -> Buffer.add_string buf (Printf.sprintf "%02x" (Char.code c))) l;
  Buffer.contents buf

let split_on c s = if s = "" then [] else String.split_on_char c s
(* a list of byte strings: hex items separated by ','; an empty item is the empty byte string;
   the empty list is written as "-" *)
let bytes_list_of_field (s : string) : char list list =
  if s = "-" then [] else List.map chars_of_hex (String.split_on_char ',' s)
let field_of_bytes_list (l : char list list) : string =
  if l = [] then "-" else String.concat "," (List.map hex_of_chars l)
let int_list_of_field s = if s = "-" then [] else List.map int_of_string (String.split_on_char ',' s)
let field_of_int_list l = if l = [] then "-" else String.concat "," (List.map string_of_int l)

let main_loop (dispatch : string list -> string) =
  (try
    while true do
      let line = input_line stdin in
      let fields = String.split_on_char '|' line in
      let out = (try dispatch fields with
                 | Stack_overflow -> "ERROR stack overflow"
                 | e -> "ERROR " ^ Printexc.to_string e) in
      print_string out; print_char '\n'
    done
  with End_of_file -> ());
  flush stdout

let selftest () =
  let hx s = hex_of_chars (Sha.chars_of_string s) in
  let ok = ref true in
  let chk name got exp = if got <> exp then (ok := false; Printf.printf "SELFTEST FAIL %s %s\n" name got) in
  chk "sha1-empty" (hx (Sha.sha1 "")) "da39a3ee5e6b4b0d3255bfef95601890afd80709";
  chk "sha1-abc" (hx (Sha.sha1 "abc")) "a9993e364706816aba3e25717850c26c9cd0d89d";
  chk "sha256-empty" (hx (Sha.sha256 "")) "e3b0c44298fc1c149afbf4c8996fb92427ae41e4649b934ca495991b7852b855";
  chk "sha256-abc" (hx (Sha.sha256 "abc")) "ba7816bf8f01cfea414140de5dae2223b00361a396177a9cb410ff61f20015ad";
  chk "sha1-long" (hx (Sha.sha1 (String.make 1000 'a'))) "291e9a6c66994949b57ba5e650361e98fc36b1ba";
  chk "sha256-long" (hx (Sha.sha256 (String.make 1000 'a'))) "41edece42d63e8d9bf515a9ba6932e1c20cbc9f5a5d134645adb5db1b9737ea3";
  !ok
