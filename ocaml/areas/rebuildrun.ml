(* adapter: the whole rebuild run (Model/RebuildRun.v rebuild_of_metafile behind Model/Bencode.v pyloads).

   rebuildrun|dsize|dest(hex of the text handed to Metadata.rebuild)|<hex of the metafile's bytes>|filemap|fs|queries
       filemap = entries joined by ';', entry = namehex=lochex:contenthex,lochex:contenthex ('-' = empty map)
       path    = components in hex joined by '/', '.' = the starting directory (an absolute path starts with 2f = "/")
       fs      = entries joined by ';', entry = path=D | path=F<hex of the content> ('-' = empty)
       queries = paths joined by ';'
       -> "none" (no Metadata object comes into being, or the metafile is outside the model), or
          ok|raised '|' state of every queried path after the run: N (nothing) | D | F<hex>, joined by ';'
   (wire formats of ocaml/areas/rebuild.ml: filemap as for match_v1, fs / queries / answer as for copypath) *)
open Extracted
open Wire

let split c s = String.split_on_char c s

let parse_fm (s : string) : filemap =
  if s = "-" then [] else
  List.map (fun e ->
    match split '=' e with
    | [name; cands] ->
        let cs = if cands = "" then [] else
          List.map (fun c -> match split ':' c with
                             | [l; d] -> (chars_of_hex l, chars_of_hex d)
                             | _ -> failwith "bad candidate") (split ',' cands) in
        (chars_of_hex name, cs)
    | _ -> failwith "bad filemap entry") (split ';' s)

let path_of (s : string) : path = if s = "." then [] else List.map chars_of_hex (split '/' s)
let parse_fs (s : string) : (path * node) list =
  if s = "-" then [] else
  List.map (fun e ->
    match split '=' e with
    | [p; v] -> if v = "D" then (path_of p, Dir)
                else if String.length v >= 1 && v.[0] = 'F' then (path_of p, File (chars_of_hex (String.sub v 1 (String.length v - 1))))
                else failwith "bad node"
    | _ -> failwith "bad fs entry") (split ';' s)

let dispatch fields = match fields with
  | ["selftest"] -> if selftest () then "SELFTEST OK" else "SELFTEST FAIL"
  | ["rebuildrun"; dsize; dest; file; fm; fs; queries] ->
      let f = fs_of_list (parse_fs fs) in
      (match rebuild_run_of_bytes Sha.sha1_chars Sha.sha256_chars (nat_of_int 16384) (nat_of_int (int_of_string dsize))
               (chars_of_hex dest) (parse_fm fm) (chars_of_hex file) f with
       | None -> "none"
       | Some r ->
           let (tag, f') = (match r with Ok g -> ("ok", g) | Raised g -> ("raised", g)) in
           tag ^ "|" ^ String.concat ";" (List.map (fun q ->
             match lookup f' (path_of q) with
             | None -> "N" | Some Dir -> "D" | Some (File d) -> "F" ^ hex_of_chars d) (split ';' queries)))
  | ["parts"; s] -> field_of_bytes_list (parts_of (chars_of_hex s))
  | _ -> "ERROR unknown request"
let () = main_loop dispatch
