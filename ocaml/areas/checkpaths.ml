(* adapter: Model/CheckPaths.v.
     checker|<hex metafile>|<path: hex,hex,... or ->|<fs table>   -> root|entry;entry;...|total   or  "none"
     findroot|<hex name>|<path>|<fs table>                        -> root or "none"
   fs table: items separated by ';' ("-" = empty); item = <path>:<f or d>:<entries: hex,hex,... or ->
   entry = <path>:<length>:<hex pieces root or ~>:<p or ->   (last field: "p" = a padding entry, fi_padding, i.e. the
   recorded "attr" contains the character p);   a path is hex components separated by ',' ("-" = no component) *)
open Extracted
open Wire
let table_of_field (s : string) =
  if s = "-" then [] else
  List.map (fun it -> match String.split_on_char ':' it with
    | [p; k; es] -> ((bytes_list_of_field p, k = "f"), bytes_list_of_field es)
    | _ -> failwith "bad fs item") (String.split_on_char ';' s)
let entry fi =
  field_of_bytes_list (fi_path fi) ^ ":" ^ string_of_z (fi_length fi) ^ ":" ^
  (match fi_root fi with Some r -> hex_of_chars r | None -> "~") ^ ":" ^
  (if fi_padding fi then "p" else "-")
let dispatch fields = match fields with
  | ["selftest"] -> if selftest () then "SELFTEST OK" else "SELFTEST FAIL"
  | ["checker"; file; path; tbl] ->
      (match checker_init_bytes (table_of_field tbl) (chars_of_hex file) (bytes_list_of_field path) with
       | Some ((root, fis), total) ->
           field_of_bytes_list root ^ "|" ^ (if fis = [] then "-" else String.concat ";" (List.map entry fis)) ^ "|" ^ string_of_z total
       | None -> "none")
  | ["findroot"; name; path; tbl] ->
      (match find_root_tbl (table_of_field tbl) (chars_of_hex name) (bytes_list_of_field path) with
       | Some r -> field_of_bytes_list r | None -> "none")
  | _ -> "ERROR unknown request"
let () = main_loop dispatch
