(* adapter: rebuild models (Model/Rebuild.v, Model/CopyPath.v, Model/PathSafe.v).

   map_pieces|pl|len,len,...|total_pieces
       -> pieces joined by ';', a piece = ranges "file:start:stop" joined by ',' (stop '-' = None = Python -1),
          a piece without ranges = '-', no piece at all = "none"
   match_v1|pl|lens|fulls(hex list)|filenames(hex list)|pieces(hex of the 20-byte digests)|filemap
       filemap = entries joined by ';', entry = namehex=lochex:contenthex,lochex:contenthex ('-' = empty map)
       -> outcomes (one char per piece: S skipped, T searched+matched, F searched+failed) '|' trace of copypath calls
          "lochex>fullhex" joined by ',' ('-' = none).  The piece nodes are built from map_pieces exactly as
          `PathNode(start=start, stop=stop, **current)` does: filename/full/length of the file the range names.
   copypath|dsize|source|dest|fs|queries
       path = components in hex joined by '/', '.' = the starting directory; fs = entries joined by ';',
       entry = path=D | path=F<hex of the content> ('-' = empty); queries = paths joined by ';'
       -> ok|raised '|' state of every queried path after the call: N (nothing) | D | F<hex>, joined by ';'
   safe_comp|hex -> 1|0          check_parts|hex list -> 1|0 (1 = no ValueError)
   resolve|hex list -> hex list  checked_target|dest hex list|name hex|path hex list -> none | hex list
   parts|hex -> hex list (PurePosixPath(s).parts)     joinparts|dest hex list|full hex -> hex list (Path(os.path.join(dest, full)).parts)
   safe_b|hex -> 1|0 (element given by its raw bytes: a str iff valid UTF-8)      utf8|hex -> 1|0
   extract|<hex of the metafile's bytes>
       -> "none" (Metadata(path) raises) or  name|meta version|piece length|pieces|is_file|entries
          a value is  i<decimal> | s<hex> | l<number of items> | d<number of keys> ;  "~" = Python None / no such key
          entries joined by ';' ('-' = none), entry = path:full:filename:length:root with path/full = hex components joined
          by ',' ('-' = no component)
   matchv2|B|pl|<hex of the metafile's bytes>|filemap (as for match_v1)
       -> "none" (no Metadata object, or meta_version != 2) or  count|trace   (trace as for match_v1) *)
open Extracted
open Wire

let split c s = String.split_on_char c s
let nat_list s = List.map nat_of_int (int_list_of_field s)

let string_of_range ((f, s), e) =
  Printf.sprintf "%d:%d:%s" (int_of_nat f) (int_of_nat s)
    (match e with None -> "-" | Some x -> string_of_int (int_of_nat x))

let string_of_pieces ps =
  if ps = [] then "none" else
  String.concat ";" (List.map (fun rs -> if rs = [] then "-" else String.concat "," (List.map string_of_range rs)) ps)

let rec chop20 (l : char list) : char list list =
  if l = [] then [] else
  let rec take n l acc = if n = 0 then (List.rev acc, l) else
    match l with [] -> (List.rev acc, []) | x :: r -> take (n - 1) r (x :: acc) in
  let (a, r) = take 20 l [] in a :: chop20 r

let parse_fm (s : string) : filemap =
  if s = "-" then [] else
  List.map (fun e ->
    match split '=' e with
    | [name; cands] ->
        let cs = if cands = "" then [] else
          List.map (fun c -> match split ':' c with
                             | [l; d] -> (chars_of_hex l, chars_of_hex d)
                             | _ -> failwith "bad candidate") (split ',' cands) in
        (chars_of_hex name, cs)
    | _ -> failwith "bad filemap entry") (split ';' s)

let path_of (s : string) : path = if s = "." then [] else List.map chars_of_hex (split '/' s)
let parse_fs (s : string) : (path * node) list =
  if s = "-" then [] else
  List.map (fun e ->
    match split '=' e with
    | [p; v] -> if v = "D" then (path_of p, Dir)
                else if String.length v >= 1 && v.[0] = 'F' then (path_of p, File (chars_of_hex (String.sub v 1 (String.length v - 1))))
                else failwith "bad node"
    | _ -> failwith "bad fs entry") (split ';' s)

let string_of_value = function
  | BInt z -> "i" ^ string_of_z z
  | BStr b -> "s" ^ hex_of_chars b
  | BList l -> "l" ^ string_of_int (List.length l)
  | BDict d -> "d" ^ string_of_int (List.length d)

let string_of_entry e =
  String.concat ":" [field_of_bytes_list e.e_path; field_of_bytes_list e.e_full; hex_of_chars e.e_filename;
                     string_of_z e.e_length; (match e.e_root with None -> "~" | Some v -> string_of_value v)]

let string_of_trace trace =
  if trace = [] then "-" else String.concat "," (List.map (fun (l, full) -> hex_of_chars l ^ ">" ^ hex_of_chars full) trace)

let dispatch fields = match fields with
  | ["selftest"] -> if selftest () then "SELFTEST OK" else "SELFTEST FAIL"
  | ["map_pieces"; pl; lens; total] ->
      string_of_pieces (map_pieces (nat_of_int (int_of_string pl)) (nat_list lens) (nat_of_int (int_of_string total)))
  | ["match_v1"; pl; lens; fulls; names; pieces; fm] ->
      let lens = nat_list lens and fulls = bytes_list_of_field fulls and names = bytes_list_of_field names in
      let digests = chop20 (chars_of_hex pieces) in
      let ranges = map_pieces (nat_of_int (int_of_string pl)) lens (nat_of_int (List.length digests)) in
      let node_of ((f, s), e) =
        { pn_filename = nth f names []; pn_full = nth f fulls []; pn_length = nth f lens O; pn_start = s; pn_stop = e } in
      let nodes = List.map2 (fun d rs -> (d, List.map node_of rs)) digests ranges in
      let ((outs, _), trace) = match_v1 Sha.sha1_chars (parse_fm fm) nodes in
      String.concat "" (List.map (function Skipped -> "S" | Searched true -> "T" | Searched false -> "F") outs)
      ^ "|" ^ (if trace = [] then "-" else
               String.concat "," (List.map (fun (l, full) -> hex_of_chars l ^ ">" ^ hex_of_chars full) trace))
  | ["copypath"; dsize; src; dst; fs; queries] ->
      let f = fs_of_list (parse_fs fs) in
      let r = copypath_run (nat_of_int (int_of_string dsize)) (path_of src) (path_of dst) f in
      let (tag, f') = (match r with Ok g -> ("ok", g) | Raised g -> ("raised", g)) in
      tag ^ "|" ^ String.concat ";" (List.map (fun q ->
        match lookup f' (path_of q) with
        | None -> "N" | Some Dir -> "D" | Some (File d) -> "F" ^ hex_of_chars d) (split ';' queries))
  | ["safe_comp"; c] -> if safe_comp (chars_of_hex c) then "1" else "0"
  | ["check_parts"; parts] -> if check_parts_model (bytes_list_of_field parts) then "1" else "0"
  | ["resolve"; cs] -> field_of_bytes_list (resolve (bytes_list_of_field cs))
  | ["checked_target"; dest; name; path] ->
      (match checked_target (bytes_list_of_field dest) (chars_of_hex name) (bytes_list_of_field path) with
       | None -> "none" | Some t -> field_of_bytes_list t)
  | ["parts"; s] -> field_of_bytes_list (parts_of (chars_of_hex s))
  | ["joinparts"; dest; full] -> field_of_bytes_list (join_parts (bytes_list_of_field dest) (chars_of_hex full))
  | ["safe_b"; c] -> if safe_b (chars_of_hex c) then "1" else "0"
  | ["utf8"; c] -> if utf8_valid (chars_of_hex c) then "1" else "0"
  | ["extract"; file] ->
      (match metadata_of_bytes (chars_of_hex file) with
       | None -> "none"
       | Some x ->
           String.concat "|" [hex_of_chars x.x_name; string_of_value x.x_meta_version; string_of_value x.x_piece_length;
                              string_of_value x.x_pieces; (if x.x_is_file then "1" else "0");
                              (if x.x_files = [] then "-" else String.concat ";" (List.map string_of_entry x.x_files))])
  | ["matchv2"; b; pl; file; fm] ->
      (match metadata_of_bytes (chars_of_hex file) with
       | None -> "none"
       | Some x ->
           (match rebuild_v2 Sha.sha256_chars (nat_of_int (int_of_string b)) (nat_of_int (int_of_string pl))
                    (parse_fm fm) x with
            | None -> "none"
            | Some (trace, count) -> string_of_int (int_of_nat count) ^ "|" ^ string_of_trace trace))
  | _ -> "ERROR unknown request"
let () = main_loop dispatch
