(* adapter: v1 Hasher model.  hasher|align(0/1)|pl|file,file,...  ->  hex of concatenated SHA-1 digests *)
open Extracted
open Wire
let dispatch fields = match fields with
  | ["selftest"] -> if selftest () then "SELFTEST OK" else "SELFTEST FAIL"
  | ["hasher"; al; pl; files] ->
      let files = bytes_list_of_field files in
      let ps = hasher_pieces Sha.sha1_chars (al = "1") (nat_of_int (int_of_string pl)) files in
      hex_of_chars (List.concat ps)
  | ["entries"; al; pl; lens] ->
      let es = v1_entries (al = "1") (nat_of_int (int_of_string pl)) (List.map nat_of_int (int_list_of_field lens)) in
      if es = [] then "-" else
      String.concat "," (List.map (fun (p, n) -> (if p then "p" else "f") ^ string_of_int (int_of_nat n)) es)
  | _ -> "ERROR unknown request"
let () = main_loop dispatch
