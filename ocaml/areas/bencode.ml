(* adapter: bencode model.
   roundtrip|hex  -> "some|<hex encode v>|<hex rest>" | "none"      (lenient decoder then encoder)
   strict|hex     -> "1" | "0"                                       (canonical_bytes)
   sortkeys|hex   -> hex of encode (top_sort (pyloads input)) | "none" *)
open Extracted
open Wire
let dispatch fields = match fields with
  | ["selftest"] -> if selftest () then "SELFTEST OK" else "SELFTEST FAIL"
  | ["roundtrip"; h] ->
      let bs = chars_of_hex h in
      (match pydecode (S (nat_of_int (List.length bs))) bs with
       | Some (v, rest) -> "some|" ^ hex_of_chars (encode v) ^ "|" ^ hex_of_chars rest
       | None -> "none")
  | ["strict"; h] -> if canonical_bytes (chars_of_hex h) then "1" else "0"
  | ["sortkeys"; h] ->
      (match pyloads (chars_of_hex h) with
       | Some v -> hex_of_chars (encode (top_sort v))
       | None -> "none")
  | _ -> "ERROR unknown request"
let () = main_loop dispatch
