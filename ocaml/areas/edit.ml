(* adapter: edit / magnet / uri models.
   edit|<hex file>|f;f;f;f;f;f   fields in the order comment source private announce url-list httpseeds, each
        K | C | S<hex> | L<hex,hex,...>      -> hex of the edited file | "none"
   magnet|<hex file>|<version>   -> hex of the URI | "none"
   quote|hex  unquote|hex        -> hex *)
open Extracted
open Wire
let field s =
  if s = "K" then Keep else if s = "C" then Clear
  else if s.[0] = 'S' then SetStr (chars_of_hex (String.sub s 1 (String.length s - 1)))
  else if s.[0] = 'L' then
    let r = String.sub s 1 (String.length s - 1) in
    SetList (if r = "-" then [] else List.map chars_of_hex (String.split_on_char ',' r))
  else failwith "bad field"
let hexdigest f l = Sha.chars_of_string (hex_of_chars (f l))
let dispatch fields = match fields with
  | ["selftest"] -> if selftest () then "SELFTEST OK" else "SELFTEST FAIL"
  | ["edit"; h; req] ->
      (match String.split_on_char ';' req with
       | [a; b; c; d; e; f] ->
           (match edit_bytes (make_req (field a) (field b) (field c) (field d) (field e) (field f)) (chars_of_hex h) with
            | Some bs -> hex_of_chars bs | None -> "none")
       | _ -> "ERROR bad request")
  | ["magnet"; h; v] ->
      (match magnet_bytes (hexdigest Sha.sha1_chars) (hexdigest Sha.sha256_chars) (chars_of_hex h) (z_of_string v) with
       | Some bs -> hex_of_chars bs | None -> "none")
  | ["quote"; h] -> hex_of_chars (quote_plus (chars_of_hex h))
  | ["unquote"; h] -> hex_of_chars (unquote_plus (chars_of_hex h))
  | _ -> "ERROR unknown request"
let () = main_loop dispatch
