(* adapter: recheck models (Model/Recheck.v, Spec/RecheckSpec.v, FileHasher of Model/HasherV2.v).

   requests (fields separated by '|'; byte strings lowercase hex; "~" = file absent / None):
     feedpieces|pl|lens|disk              -> piece,piece,...          (FeedChecker.iter_pieces, bytes)
     feed|pl|lens|disk|pieces             -> trace|matched|consumed   (FeedChecker + Checker.iter_hashes)
     specv1|pl|lens|disk|pieces           -> trace|matched|consumed   (Spec: spec_trace_v1)
     hashcheck|pl|file,file,...           -> trace|matched|consumed   (HashChecker; file = L:recorded:hashes-or-~)
     hashcheck_disk|pl|file,file,...      -> trace|matched|consumed   (file = L:recorded:content-or-~ ; the
                                             on-disk layer hashes come from the extracted FileHasher model)
     specv2|pl|file,file,...              -> trace|matched|consumed   (Spec: spec_trace_v2; file as hashcheck)
     specv2_disk|pl|file,file,...         -> same with file as hashcheck_disk
     fhlayers|pl|content                  -> hash,hash,...            (FileHasher(hybrid=False) layer hashes)
   lens = comma separated ints ("-" = none); disk = comma separated hex-or-~ ("-" = none; an empty item
   is a present empty file); pieces / recorded / hashes = the concatenated digests as in the metafile,
   cut into 20 (v1) or 32 (v2) byte slices with the extracted `chunks`.
   trace = chunk:piece:size,chunk:piece:size,...  ("-" = empty). *)
open Extracted
open Wire

let block = 16384

let opt_bytes_list_of_field (s : string) : char list option list =
  if s = "-" then [] else
  List.map (fun it -> if it = "~" then None else Some (chars_of_hex it)) (String.split_on_char ',' s)

let cut n (hex : string) : char list list = chunks (nat_of_int n) (chars_of_hex hex)

let field_of_trace (tr : entry list) : string =
  if tr = [] then "-" else
  String.concat "," (List.map (fun ((c, p), sz) ->
    hex_of_chars c ^ ":" ^ hex_of_chars p ^ ":" ^ string_of_int (int_of_nat sz)) tr)

let answer (tr : entry list) : string =
  let (m, c) = iter_hashes tr in
  field_of_trace tr ^ "|" ^ string_of_int (int_of_nat m) ^ "|" ^ string_of_int (int_of_nat c)

let fh_layers pl content =
  fhr_yielded_layers (file_hasher_run Sha.sha256_chars (nat_of_int block) false true pl content)

(* file = L:recorded:third ; `on_disk` says whether the third component is file content (to be hashed by
   the FileHasher model) or the layer hashes themselves *)
let v2_files_of_field (on_disk : bool) pl (s : string) : v2_file list =
  if s = "-" then [] else
  List.map (fun it ->
    match String.split_on_char ':' it with
    | [l; recd; third] ->
        let disk =
          if third = "~" then None
          else if on_disk then Some (fh_layers pl (chars_of_hex third))
          else Some (cut 32 third) in
        { v2_len = nat_of_int (int_of_string l); v2_pieces = cut 32 recd; v2_disk = disk }
    | _ -> failwith "bad v2 file item") (String.split_on_char ',' s)

let dispatch fields = match fields with
  | ["selftest"] -> if selftest () then "SELFTEST OK" else "SELFTEST FAIL"
  | ["feedpieces"; pl; lens; disk] ->
      field_of_bytes_list (feed_pieces (nat_of_int (int_of_string pl))
                             (List.map nat_of_int (int_list_of_field lens)) (opt_bytes_list_of_field disk))
  | ["feed"; pl; lens; disk; pieces] ->
      answer (feed_trace Sha.sha1_chars (nat_of_int (int_of_string pl))
                (List.map nat_of_int (int_list_of_field lens)) (opt_bytes_list_of_field disk) (cut 20 pieces))
  | ["specv1"; pl; lens; disk; pieces] ->
      answer (spec_trace_v1 Sha.sha1_chars (nat_of_int (int_of_string pl))
                (List.map nat_of_int (int_list_of_field lens)) (opt_bytes_list_of_field disk) (cut 20 pieces))
  | ["hashcheck"; pl; files] ->
      let pl = nat_of_int (int_of_string pl) in
      answer (hash_trace Sha.sha256_chars pl (v2_files_of_field false pl files))
  | ["hashcheck_disk"; pl; files] ->
      let pl = nat_of_int (int_of_string pl) in
      answer (hash_trace Sha.sha256_chars pl (v2_files_of_field true pl files))
  | ["specv2"; pl; files] ->
      let pl = nat_of_int (int_of_string pl) in
      answer (spec_trace_v2 Sha.sha256_chars pl (v2_files_of_field false pl files))
  | ["specv2_disk"; pl; files] ->
      let pl = nat_of_int (int_of_string pl) in
      answer (spec_trace_v2 Sha.sha256_chars pl (v2_files_of_field true pl files))
  | ["fhlayers"; pl; content] ->
      field_of_bytes_list (fh_layers (nat_of_int (int_of_string pl)) (chars_of_hex content))
  | _ -> "ERROR unknown request"
let () = main_loop dispatch
