(* adapter: the whole-run model of Checker(metafile, path) (Model/RecheckInit.v recheck_model, over Model/CheckPaths.v,
   Model/Recheck.v, Model/HasherV2.v) and the reference metafile encoder of Spec/MetafileWF.v.

     recheck|<hex metafile>|<path: hex,hex,... or ->|<fs table with contents>   -> total|matched|consumed   or  "none"
        fs table: items separated by ';' ("-" = empty table);
                  item = <path>:<f or d>:<entries: hex,hex,... or ->:<hex content (empty for a directory / an empty file)>
        a path is hex components separated by ',' ("-" = no component), relative to the directory the table describes
        (the table of checkpaths.ml + one content field).  B = 16384, SHA-1 / SHA-256 = ocaml/sha.ml.
     refmeta|<version 1, 2 or 3>|<hex name>|<piece length>|<tree>|<trailing_pad 0 or 1>
                                                   -> hex of  encode (ref_metafile version name tree pl [] [] trailing_pad)
        tree wire format of creators.ml:   node  := "F" hexdata | "D(" [entry {"," entry}] ")"     entry := hexname "=" node
        (entries in enumeration order; the file tree of the result is written in that order) *)
open Extracted
open Wire
let h256 = Sha.sha256_chars
let h1 = Sha.sha1_chars
let block = 16384

let table_of_field (s : string) =
  if s = "-" then [] else
  List.map (fun it -> match String.split_on_char ':' it with
    | [p; k; es; d] -> (((bytes_list_of_field p, k = "f"), bytes_list_of_field es), chars_of_hex d)
    | _ -> failwith "bad fs item") (String.split_on_char ';' s)

let sub_chars (s : string) (a : int) (b : int) : char list =      (* hex digits s[a..b) -> bytes *)
  if (b - a) land 1 = 1 then failwith "odd hex";
  let r = ref [] in
  let i = ref (b - 2) in
  while !i >= a do
    r := Char.chr (hexval s.[!i] * 16 + hexval s.[!i + 1]) :: !r;
    i := !i - 2
  done; !r

let parse_tree (s : string) : node =
  let n = String.length s in
  let pos = ref 0 in
  let peek () = if !pos < n then s.[!pos] else '\000' in
  let is_hex c = (c >= '0' && c <= '9') || (c >= 'a' && c <= 'f') in
  let hexrun () =
    let a = !pos in
    while !pos < n && is_hex s.[!pos] do incr pos done;
    sub_chars s a !pos in
  let rec node () =
    match peek () with
    | 'F' -> incr pos; File (hexrun ())
    | 'D' ->
        incr pos;
        if peek () <> '(' then failwith "tree: ( expected";
        incr pos;
        if peek () = ')' then (incr pos; Dir [])
        else begin
          let es = ref [] in
          let continue = ref true in
          while !continue do
            let name = hexrun () in
            if peek () <> '=' then failwith "tree: = expected";
            incr pos;
            let c = node () in
            es := (name, c) :: !es;
            (match peek () with
             | ',' -> incr pos
             | ')' -> incr pos; continue := false
             | _ -> failwith "tree: , or ) expected")
          done;
          Dir (List.rev !es)
        end
    | _ -> failwith "tree: F or D expected" in
  let t = node () in
  if !pos <> n then failwith "tree: trailing characters";
  t

let dispatch fields = match fields with
  | ["selftest"] -> if selftest () then "SELFTEST OK" else "SELFTEST FAIL"
  | ["recheck"; file; path; tbl] ->
      (match recheck_bytes h1 h256 (nat_of_int block) (table_of_field tbl) (chars_of_hex file) (bytes_list_of_field path) with
       | Some ((total, matched), consumed) ->
           string_of_z total ^ "|" ^ string_of_int (int_of_nat matched) ^ "|" ^ string_of_int (int_of_nat consumed)
       | None -> "none")
  | ["refmeta"; version; name; pl; tree; tp] ->
      let v = int_of_string version in
      if v < 1 || v > 3 then failwith "version must be 1, 2 or 3";
      hex_of_chars (refmeta_bytes h1 h256 (nat_of_int block) (nat_of_int v) (chars_of_hex name) (parse_tree tree)
                      (nat_of_int (int_of_string pl)) (tp = "1"))
  | _ -> "ERROR unknown request"
let () = main_loop dispatch
