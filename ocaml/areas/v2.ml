(* adapter: v2 / hybrid hasher models (Model/HasherV2.v) and the BEP 52 specification functions (Spec/Bep52.v).
   The block size B is a field of every request (16384 = real BLOCK_SIZE, 4 = patched small scope).
   The models return the bytes FED to SHA-1 per v1 piece; the adapter applies SHA-1 to them.

   merkle_root|h,h,...                       -> hex | "-" (the model's [] for an empty list)
   np2|n                                     -> next_power_2_nat n
   hasher_v2|B|pl|data                       -> root|layer
   hasher_hybrid|B|padding|pl|data           -> root|layer|v1 digests|pad
   file_hasher|B|hybrid|padding|pl|data      -> root|layer|pieces|pad|yielded layers|yielded pieces|end
   v2all|B|pl|data                           -> hasher_v2 ; hybrid pad=0 ; hybrid pad=1 ; file_hasher 00 ; 01 ; 10 ; 11
   bep52|B|k|data                            -> spec: root|layer(k)|sha1 of v1_inputs_padded|sha1 of v1_inputs_plain|pad
   lists are comma separated hex ("-" = empty list), pad is "None" or the length, None results are "None" *)
open Extracted
open Wire
let h256 = Sha.sha256_chars
let h1 = Sha.sha1_chars
let n = nat_of_int
let nof s = nat_of_int (int_of_string s)
let hx l = if l = [] then "-" else hex_of_chars l
let lst = field_of_bytes_list
let pad = function None -> "None" | Some v -> string_of_int (int_of_nat v)
let digests ps = lst (List.map h1 ps)

let out_v2 b pl data =
  let (root, layer) = hasher_v2 h256 b pl data in
  String.concat "|" [hx root; lst layer]

let out_hybrid b padding pl data =
  let (((root, layer), pieces), pf) = hasher_hybrid h256 b padding pl data in
  String.concat "|" [hx root; lst layer; digests pieces; pad pf]

let out_fh b hybrid padding pl data =
  let r = file_hasher_run h256 b hybrid padding pl data in
  String.concat "|" [
    (match r.fhr_root with None -> "None" | Some x -> hx x);
    (match r.fhr_piece_layer with None -> "None" | Some l -> lst l);
    digests r.fhr_pieces; pad r.fhr_padding_file;
    lst r.fhr_yielded_layers; digests r.fhr_yielded_pieces;
    (if r.fhr_end then "1" else "0")]

let rec pow2 k = if k = 0 then 1 else 2 * pow2 (k - 1)

let dispatch fields = match fields with
  | ["selftest"] -> if selftest () then "SELFTEST OK" else "SELFTEST FAIL"
  | ["merkle_root"; blocks] -> hx (merkle_root h256 (bytes_list_of_field blocks))
  | ["np2"; v] -> string_of_int (int_of_nat (next_power_2_nat (nof v)))
  | ["hasher_v2"; b; pl; data] -> out_v2 (nof b) (nof pl) (chars_of_hex data)
  | ["hasher_hybrid"; b; padding; pl; data] -> out_hybrid (nof b) (padding = "1") (nof pl) (chars_of_hex data)
  | ["file_hasher"; b; hybrid; padding; pl; data] ->
      out_fh (nof b) (hybrid = "1") (padding = "1") (nof pl) (chars_of_hex data)
  | ["v2all"; b; pl; data] ->
      let b = nof b and pl = nof pl and data = chars_of_hex data in
      String.concat ";" [
        out_v2 b pl data; out_hybrid b false pl data; out_hybrid b true pl data;
        out_fh b false false pl data; out_fh b false true pl data;
        out_fh b true false pl data; out_fh b true true pl data]
  | ["bep52"; b; k; data] ->
      let bi = int_of_string b and ki = int_of_string k in
      let pl = n (bi * pow2 ki) and data = chars_of_hex data in
      String.concat "|" [
        hx (bep52_root h256 (n bi) data); lst (bep52_piece_layer h256 (n bi) (n ki) data);
        digests (v1_inputs_padded pl data); digests (v1_inputs_plain pl data);
        pad (pad_file_length pl data)]
  | _ -> "ERROR unknown request"
let () = main_loop dispatch
