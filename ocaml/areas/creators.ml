(* adapter: the metafile creators (Model/Creators.v) composed with the bencode encoder (Model/Bencode.v), and the
   lexical path semantics (Spec/PathSem.v).

   tree wire format (one field, no '|'):   node  := "F" hexdata | "D(" [entry {"," entry}] ")"
                                            entry := hexname "=" node
   the entries of a directory are in ENUMERATION order (the order os.listdir / Path.iterdir returned them).

   create|kind|B|pl|cwd|spelling|created_by|date|announce|comment|private|source|url_list|httpseeds|tree
        kind in v1, v1-align, v2-class, hybrid-class, v2-asm, hybrid-asm; cwd / spelling / strings hex, lists comma
        separated hex ("-" = empty list), date decimal, private 0/1.
        name := name_of cwd spelling, root := pathlib_str spelling (PathSem.v);  ->  hex of the predicted metafile bytes
   flt|root|tree        -> total|rel,rel,...      (filelist_total: relative paths "/"-joined, hex, in list order)
   path|cwd|p|start|q   -> normpath p|abspath cwd p|relpath cwd p start|basename p|split head|split tail|join p q|
                           name_of cwd p|rel_components cwd p start|pathlib_str p|old_name p|old_name_v2 p|split_path p|isabs
   descend|cwd|s|names  -> pathlib_descend s names|child_path s names|rel_components cwd (pathlib_descend..) s|
                           rel_components cwd (child_path..) s
   wf|tree              -> 1 | 0 *)
open Extracted
open Wire
let h256 = Sha.sha256_chars
let h1 = Sha.sha1_chars
let nof s = nat_of_int (int_of_string s)
let hx = hex_of_chars
let lst = field_of_bytes_list

let sub_chars (s : string) (a : int) (b : int) : char list =      (* hex digits s[a..b) -> bytes *)
  if (b - a) land 1 = 1 then failwith "odd hex";
  let r = ref [] in
  let i = ref (b - 2) in
  while !i >= a do
    r := Char.chr (hexval s.[!i] * 16 + hexval s.[!i + 1]) :: !r;
    i := !i - 2
  done; !r

let parse_tree (s : string) : node =
  let n = String.length s in
  let pos = ref 0 in
  let peek () = if !pos < n then s.[!pos] else '\000' in
  let is_hex c = (c >= '0' && c <= '9') || (c >= 'a' && c <= 'f') in
  let hexrun () =
    let a = !pos in
    while !pos < n && is_hex s.[!pos] do incr pos done;
    sub_chars s a !pos in
  let rec node () =
    match peek () with
    | 'F' -> incr pos; File (hexrun ())
    | 'D' ->
        incr pos;
        if peek () <> '(' then failwith "tree: ( expected";
        incr pos;
        if peek () = ')' then (incr pos; Dir [])
        else begin
          let es = ref [] in
          let continue = ref true in
          while !continue do
            let name = hexrun () in
            if peek () <> '=' then failwith "tree: = expected";
            incr pos;
            let c = node () in
            es := (name, c) :: !es;
            (match peek () with
             | ',' -> incr pos
             | ')' -> incr pos; continue := false
             | _ -> failwith "tree: , or ) expected")
          done;
          Dir (List.rev !es)
        end
    | _ -> failwith "tree: F or D expected" in
  let t = node () in
  if !pos <> n then failwith "tree: trailing characters";
  t

let slash_join (l : char list list) : char list =
  let rec go = function [] -> [] | [a] -> a | a :: r -> a @ ('/' :: go r) in go l

let dispatch fields = match fields with
  | ["selftest"] -> if selftest () then "SELFTEST OK" else "SELFTEST FAIL"
  | ["create"; kind; b; pl; cwd; spelling; created_by; date; announce; comment; priv; source; url_list; httpseeds; tree] ->
      let o = { o_created_by = chars_of_hex created_by; o_creation_date = z_of_string date;
                o_announce = bytes_list_of_field announce; o_comment = chars_of_hex comment;
                o_private = (priv = "1"); o_source = chars_of_hex source;
                o_url_list = bytes_list_of_field url_list; o_httpseeds = bytes_list_of_field httpseeds } in
      let cwd = chars_of_hex cwd and sp = chars_of_hex spelling in
      let name = name_of cwd sp and root = pathlib_str sp in
      let b = nof b and pl = nof pl and t = parse_tree tree in
      let out = match kind with
        | "v1" -> bytes_v1 h1 false o root name pl t
        | "v1-align" -> bytes_v1 h1 true o root name pl t
        | "v2-class" -> bytes_v2_class h256 b o name pl t
        | "hybrid-class" -> bytes_hybrid_class h1 h256 b o name pl t
        | "v2-asm" -> bytes_assembler h1 h256 b false o name pl t
        | "hybrid-asm" -> bytes_assembler h1 h256 b true o name pl t
        | _ -> failwith "unknown creator kind" in
      hx out
  | ["flt"; root; tree] ->
      let (total, l) = filelist_total (chars_of_hex root) (parse_tree tree) in
      string_of_int (int_of_nat total) ^ "|" ^ lst (List.map (fun (rel, _) -> slash_join rel) l)
  | ["wf"; tree] -> if wf_nodeb (parse_tree tree) then "1" else "0"
  | ["path"; cwd; p; start; q] ->
      let cwd = chars_of_hex cwd and p = chars_of_hex p and start = chars_of_hex start and q = chars_of_hex q in
      let (hd, tl) = os_split p in
      String.concat "|" [
        hx (normpath p); hx (abspath cwd p); hx (relpath cwd p start); hx (basename p); hx hd; hx tl;
        hx (join p q); hx (name_of cwd p); lst (rel_components cwd p start); hx (pathlib_str p);
        hx (old_name p); hx (old_name_v2 p); lst (split_path p); (if is_abs p then "1" else "0")]
  | ["descend"; cwd; s; names] ->
      let cwd = chars_of_hex cwd and s = chars_of_hex s and names = bytes_list_of_field names in
      let a = pathlib_descend s names and c = child_path s names in
      String.concat "|" [hx a; hx c; lst (rel_components cwd a s); lst (rel_components cwd c s)]
  | _ -> "ERROR unknown request"
let () = main_loop dispatch
